SPECIFICATION Spec
VIEW view
INVARIANT SepDeletion
INVARIANT NoSepSame
PROPERTY DeadStaysDead
CHECK_DEADLOCK FALSE
