CONSTANT PowHiN = 4
CONSTANT MaxLen = 5
CONSTANT ODBias = 1
INIT Init
NEXT Next
INVARIANT StrategyIsExact
INVARIANT IndicesInRange
INVARIANT PartialCompleteAgree
CHECK_DEADLOCK FALSE
