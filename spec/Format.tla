------------------------------- MODULE Format -------------------------------
(***************************************************************************)
(* The number format as the documentation describes it: a record with six  *)
(* character / radix fields and 31 flags -- what NumberFormatBuilder holds. *)
(* The packed 128-bit layout is deliberately not modelled.                  *)
(*                                                                         *)
(* The builder is a little state machine: state = the record, one action    *)
(* per public setter (ApplySetter), observers = getters / build_* / rebuild.*)
(***************************************************************************)
EXTENDS Chars

FlagNames == <<
    "required_integer_digits", "required_fraction_digits", "required_exponent_digits",
    "required_mantissa_digits", "no_positive_mantissa_sign", "required_mantissa_sign",
    "no_exponent_notation", "no_positive_exponent_sign", "required_exponent_sign",
    "no_exponent_without_fraction", "no_special", "case_sensitive_special",
    "no_integer_leading_zeros", "no_float_leading_zeros", "required_exponent_notation",
    "case_sensitive_exponent", "case_sensitive_base_prefix", "case_sensitive_base_suffix",
    "integer_internal_digit_separator", "fraction_internal_digit_separator",
    "exponent_internal_digit_separator", "integer_leading_digit_separator",
    "fraction_leading_digit_separator", "exponent_leading_digit_separator",
    "integer_trailing_digit_separator", "fraction_trailing_digit_separator",
    "exponent_trailing_digit_separator", "integer_consecutive_digit_separator",
    "fraction_consecutive_digit_separator", "exponent_consecutive_digit_separator",
    "special_digit_separator" >>

(* NumberFormatBuilder::new() *)
NewFormat == [
    digit_separator |-> 0, mantissa_radix |-> 10, exponent_base |-> 0, exponent_radix |-> 0,
    base_prefix |-> 0, base_suffix |-> 0,
    required_integer_digits |-> FALSE, required_fraction_digits |-> FALSE,
    required_exponent_digits |-> TRUE, required_mantissa_digits |-> TRUE,
    no_positive_mantissa_sign |-> FALSE, required_mantissa_sign |-> FALSE,
    no_exponent_notation |-> FALSE, no_positive_exponent_sign |-> FALSE,
    required_exponent_sign |-> FALSE, no_exponent_without_fraction |-> FALSE,
    no_special |-> FALSE, case_sensitive_special |-> FALSE,
    no_integer_leading_zeros |-> FALSE, no_float_leading_zeros |-> FALSE,
    required_exponent_notation |-> FALSE, case_sensitive_exponent |-> FALSE,
    case_sensitive_base_prefix |-> FALSE, case_sensitive_base_suffix |-> FALSE,
    integer_internal_digit_separator |-> FALSE, fraction_internal_digit_separator |-> FALSE,
    exponent_internal_digit_separator |-> FALSE, integer_leading_digit_separator |-> FALSE,
    fraction_leading_digit_separator |-> FALSE, exponent_leading_digit_separator |-> FALSE,
    integer_trailing_digit_separator |-> FALSE, fraction_trailing_digit_separator |-> FALSE,
    exponent_trailing_digit_separator |-> FALSE, integer_consecutive_digit_separator |-> FALSE,
    fraction_consecutive_digit_separator |-> FALSE, exponent_consecutive_digit_separator |-> FALSE,
    special_digit_separator |-> FALSE ]

Radix(f)         == f.mantissa_radix
ExponentBase(f)  == IF f.exponent_base = 0 THEN f.mantissa_radix ELSE f.exponent_base
ExponentRadix(f) == IF f.exponent_radix = 0 THEN f.mantissa_radix ELSE f.exponent_radix

FromRadix(r) == [NewFormat EXCEPT !.mantissa_radix = r, !.exponent_base = r, !.exponent_radix = r]

SetAll(f, names, v) == [k \in DOMAIN f |-> IF k \in names THEN v ELSE f[k]]

(* one builder transition: setter `name` with argument `a` (a byte / radix, or a BOOLEAN) *)
ApplySetter(f, name, a) ==
    CASE name = "new"            -> NewFormat
      [] name = "decimal"        -> FromRadix(10)
      [] name = "binary"         -> FromRadix(2)
      [] name = "octal"          -> FromRadix(8)
      [] name = "hexadecimal"    -> FromRadix(16)
      [] name = "from_radix"     -> FromRadix(a)
      [] name = "radix"          -> [f EXCEPT !.mantissa_radix = a]
      [] name \in {"digit_separator", "mantissa_radix", "exponent_base", "exponent_radix",
                   "base_prefix", "base_suffix"} -> [f EXCEPT ![name] = a]
      [] name = "required_digits" ->
            SetAll(f, {"required_integer_digits", "required_fraction_digits",
                       "required_exponent_digits", "required_mantissa_digits"}, a)
      [] name = "internal_digit_separator" ->
            SetAll(f, {"integer_internal_digit_separator", "fraction_internal_digit_separator",
                       "exponent_internal_digit_separator"}, a)
      [] name = "leading_digit_separator" ->
            SetAll(f, {"integer_leading_digit_separator", "fraction_leading_digit_separator",
                       "exponent_leading_digit_separator"}, a)
      [] name = "trailing_digit_separator" ->
            SetAll(f, {"integer_trailing_digit_separator", "fraction_trailing_digit_separator",
                       "exponent_trailing_digit_separator"}, a)
      [] name = "consecutive_digit_separator" ->
            SetAll(f, {"integer_consecutive_digit_separator", "fraction_consecutive_digit_separator",
                       "exponent_consecutive_digit_separator"}, a)
      [] name = "integer_digit_separator_flags" ->
            SetAll(f, {"integer_internal_digit_separator", "integer_leading_digit_separator",
                       "integer_trailing_digit_separator", "integer_consecutive_digit_separator"}, a)
      [] name = "fraction_digit_separator_flags" ->
            SetAll(f, {"fraction_internal_digit_separator", "fraction_leading_digit_separator",
                       "fraction_trailing_digit_separator", "fraction_consecutive_digit_separator"}, a)
      [] name = "exponent_digit_separator_flags" ->
            SetAll(f, {"exponent_internal_digit_separator", "exponent_leading_digit_separator",
                       "exponent_trailing_digit_separator", "exponent_consecutive_digit_separator"}, a)
      [] name = "digit_separator_flags" ->
            SetAll(f, {"integer_internal_digit_separator", "integer_leading_digit_separator",
                       "integer_trailing_digit_separator", "integer_consecutive_digit_separator",
                       "fraction_internal_digit_separator", "fraction_leading_digit_separator",
                       "fraction_trailing_digit_separator", "fraction_consecutive_digit_separator",
                       "exponent_internal_digit_separator", "exponent_leading_digit_separator",
                       "exponent_trailing_digit_separator", "exponent_consecutive_digit_separator",
                       "special_digit_separator"}, a)
      [] OTHER -> [f EXCEPT ![name] = a]            \* a plain flag setter

RECURSIVE ApplyCalls(_, _, _)
ApplyCalls(f, calls, i) ==
    IF i > Len(calls) THEN f ELSE ApplyCalls(ApplySetter(f, calls[i][1], calls[i][2]), calls, i + 1)

BuildFormat(calls) == ApplyCalls(NewFormat, calls, 1)

(* what a getter of rebuild(build_unchecked(f)) must show: an unset exponent base / radix    *)
(* reads back as the mantissa radix; everything else is unchanged                            *)
RebuildView(f) == [f EXCEPT !.exponent_base = ExponentBase(f), !.exponent_radix = ExponentRadix(f),
                            !.digit_separator = IF \E i \in 19..31 : f[FlagNames[i]] THEN f.digit_separator ELSE 0]
(* what build_unchecked keeps: a digit separator character only matters with some separator flag *)
PackedView(f) == [f EXCEPT !.digit_separator = IF \E i \in 19..31 : f[FlagNames[i]] THEN f.digit_separator ELSE 0]

(***************************************************************************)
(* Helpers used by the grammar.                                             *)
(***************************************************************************)
HasSeparator(f) == f.digit_separator # 0
IntSepFlags(f)  == [I |-> f.integer_internal_digit_separator, L |-> f.integer_leading_digit_separator,
                    T |-> f.integer_trailing_digit_separator, C |-> f.integer_consecutive_digit_separator]
FracSepFlags(f) == [I |-> f.fraction_internal_digit_separator, L |-> f.fraction_leading_digit_separator,
                    T |-> f.fraction_trailing_digit_separator, C |-> f.fraction_consecutive_digit_separator]
ExpSepFlags(f)  == [I |-> f.exponent_internal_digit_separator, L |-> f.exponent_leading_digit_separator,
                    T |-> f.exponent_trailing_digit_separator, C |-> f.exponent_consecutive_digit_separator]
AnySepFlag(f) ==
    \/ f.integer_internal_digit_separator \/ f.integer_leading_digit_separator
    \/ f.integer_trailing_digit_separator \/ f.integer_consecutive_digit_separator
    \/ f.fraction_internal_digit_separator \/ f.fraction_leading_digit_separator
    \/ f.fraction_trailing_digit_separator \/ f.fraction_consecutive_digit_separator
    \/ f.exponent_internal_digit_separator \/ f.exponent_leading_digit_separator
    \/ f.exponent_trailing_digit_separator \/ f.exponent_consecutive_digit_separator
    \/ f.special_digit_separator
(***************************************************************************)
(* Validity of a format as documented (C18): supported radices for the      *)
(* enabled features; digit separator / base prefix / base suffix are ASCII, *)
(* not digits of the larger of mantissa and exponent radix, not signs, and   *)
(* pairwise distinct; no contradictory flag pairs; a consecutive-separator   *)
(* flag needs a position flag in the same component.                        *)
(* feat = [format, pow2, radix] (booleans).  Result "valid" | "invalid" |    *)
(* "unspecified" (an ASCII control character: the property says "ASCII",     *)
(* the code means printable ASCII -- not judged).                           *)
(***************************************************************************)
IsPrintAscii(c) == (c >= 9 /\ c <= 13) \/ (c >= 32 /\ c < 127)
CtlGap(c) == c # 0 /\ IsAscii(c) /\ ~IsPrintAscii(c)
MaxI(a, b) == IF a > b THEN a ELSE b
ControlRadixOf(f) == MaxI(Radix(f), ExponentRadix(f))
ValidRadixFor(r, feat) == IF feat.radix THEN r >= 2 /\ r <= 36
                          ELSE IF feat.pow2 THEN r \in {2, 4, 8, 10, 16, 32} ELSE r = 10
ControlOk(f, c) == IsPrintAscii(c) /\ ~IsDigit(c, ControlRadixOf(f)) /\ c # CPlus /\ c # CMinus
OptControlOk(f, c) == c = 0 \/ ControlOk(f, c)

ConsecutiveOk(fl) == fl.C => (fl.I \/ fl.L \/ fl.T)

FormatValidity(g, feat) ==
    LET f == PackedView(g)
        sep == f.digit_separator  pre == f.base_prefix  suf == f.base_suffix
        gap == CtlGap(sep) \/ CtlGap(pre) \/ CtlGap(suf)
        radixOk == ValidRadixFor(Radix(f), feat) /\ ValidRadixFor(ExponentBase(f), feat) /\ ValidRadixFor(ExponentRadix(f), feat)
        sepOk == IF feat.format THEN OptControlOk(f, sep) ELSE sep = 0
        preOk == IF feat.format /\ feat.pow2 THEN OptControlOk(f, pre) ELSE pre = 0
        sufOk == IF feat.format /\ feat.pow2 THEN OptControlOk(f, suf) ELSE suf = 0
        distinct == /\ (sep # 0 /\ pre # 0 => sep # pre) /\ (sep # 0 /\ suf # 0 => sep # suf)
                    /\ (pre # 0 /\ suf # 0 => pre # suf)
        flagsOk == /\ ~(f.no_exponent_notation /\ f.required_exponent_notation)
                   /\ ~(f.no_positive_mantissa_sign /\ f.required_mantissa_sign)
                   /\ ~(f.no_positive_exponent_sign /\ f.required_exponent_sign)
                   /\ ~(f.no_special /\ f.case_sensitive_special)
                   /\ ~(f.no_special /\ f.special_digit_separator)
                   /\ ConsecutiveOk(IntSepFlags(f)) /\ ConsecutiveOk(FracSepFlags(f)) /\ ConsecutiveOk(ExpSepFlags(f))
    IN  IF ~radixOk THEN "invalid"
        ELSE IF gap THEN "unspecified"
        ELSE IF sepOk /\ preOk /\ sufOk /\ distinct /\ flagsOk THEN "valid" ELSE "invalid"

(* punctuation of the run-time options against the format *)
OptionsPunctuationValidity(f, exp, point) ==
    IF CtlGap(exp) \/ CtlGap(point) THEN "unspecified"
    ELSE IF /\ exp # 0 /\ point # 0 /\ ControlOk(f, exp) /\ ControlOk(f, point) /\ exp # point
            /\ f.digit_separator \notin {exp, point} /\ f.base_prefix \notin {exp, point} /\ f.base_suffix \notin {exp, point}
         THEN "valid" ELSE "invalid"

(* the separator-free counterpart of a format *)
NoSep(f) == [k \in DOMAIN f |->
               IF k = "digit_separator" THEN 0
               ELSE IF k \in {"integer_internal_digit_separator", "fraction_internal_digit_separator",
                              "exponent_internal_digit_separator", "integer_leading_digit_separator",
                              "fraction_leading_digit_separator", "exponent_leading_digit_separator",
                              "integer_trailing_digit_separator", "fraction_trailing_digit_separator",
                              "exponent_trailing_digit_separator", "integer_consecutive_digit_separator",
                              "fraction_consecutive_digit_separator", "exponent_consecutive_digit_separator",
                              "special_digit_separator"} THEN FALSE
               ELSE f[k]]


RECURSIVE ContainsByte(_, _, _)
ContainsByte(s, c, i) == IF i > Len(s) THEN FALSE ELSE IF s[i] = c THEN TRUE ELSE ContainsByte(s, c, i + 1)
=============================================================================
