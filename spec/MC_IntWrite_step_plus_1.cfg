CONSTANT Variant = "step_plus_1"
CONSTANT WBITS = 8
CONSTANT Radices = {3, 10}
CONSTANT Dense = FALSE
SPECIFICATION Spec
INVARIANT InBounds
INVARIANT FilledExactly
INVARIANT Canonical
INVARIANT Exact
INVARIANT NothingLeft
CHECK_DEADLOCK FALSE
