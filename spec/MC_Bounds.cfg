CONSTANT Variant = "ok"
CONSTANT Deep = TRUE
CONSTANT Exhaustive = FALSE
SPECIFICATION Spec
INVARIANT Sufficient
INVARIANT NotWasteful
CHECK_DEADLOCK FALSE
