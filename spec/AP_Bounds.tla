------------------------------ MODULE AP_Bounds -----------------------------
(***************************************************************************)
(* Unbounded version of MC_Bounds!Sufficient for Apalache: for ALL integer  *)
(* option values (not a grid), every float type, every scientific exponent  *)
(* and digit count of the type, the output of the documented layout fits    *)
(* the documented bound.  One symbolic state; the invariant is checked on   *)
(* it (--length=0).                                                         *)
(***************************************************************************)
EXTENDS BoundsCore

VARIABLES
    \* @type: Int;
    mn,
    \* @type: Int;
    mx,
    \* @type: Int;
    ng,
    \* @type: Int;
    ps,
    \* @type: Int;
    se,
    \* @type: Int;
    nd,
    \* @type: Bool;
    trim,
    \* @type: Bool;
    noexp,
    \* @type: Bool;
    reqexp,
    \* @type: Bool;
    reqsign,
    \* @type: Bool;
    pow2,
    \* @type: Str;
    ty

Init ==
    /\ ty \in {"f64", "f32"}
    /\ mn \in Int /\ mx \in Int /\ ng \in Int /\ ps \in Int /\ se \in Int /\ nd \in Int
    /\ mn >= 0 /\ mx >= 0 /\ mn <= 100000 /\ mx <= 100000
    /\ ng <= -1 /\ ps >= 1 /\ ng >= -100000 /\ ps <= 100000
    /\ se >= TypeDom(ty).lo /\ se <= TypeDom(ty).hi
    /\ nd >= 1 /\ nd <= NMax(ty, se)
    /\ trim \in BOOLEAN /\ noexp \in BOOLEAN /\ reqexp \in BOOLEAN /\ reqsign \in BOOLEAN /\ pow2 \in BOOLEAN

Next == UNCHANGED << mn, mx, ng, ps, se, nd, trim, noexp, reqexp, reqsign, pow2, ty >>

O == [min |-> mn, max |-> mx, neg |-> ng, pos |-> ps, trim |-> trim]
FL == [noexp |-> noexp, reqexp |-> reqexp, reqsign |-> reqsign]

Sufficient == 1 + OutLen(Kept(nd, mx), se, O, FL) <= DocBound(O, FL, pow2, 64, "ok")
TooTight   == 1 + OutLen(Kept(nd, mx), se, O, FL) <= DocBound(O, FL, pow2, 64, "exp_room_minus_1")
=============================================================================
