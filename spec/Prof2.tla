---- MODULE Prof2 ----
EXTENDS Trace
N == Len(Rec[1].in)
Inp(n) == SubSeq(Rec[1].in, 1, n)
T(n, reps) == \A x \in 1..reps : ScanComplete("float", FMT[1], DefaultPF, Inp(n), n).v \in {"A", "R"}
TR(n, reps) == \A x \in 1..reps : Run("float", FMT[1], DefaultPF, Inp(n), n).st.ph \in {"I", "F", "R"}
ASSUME PrintT(N)
ASSUME TR(700, 20)
PInit == l = 0 /\ ep = 0 /\ obs = <<>> /\ bad = <<>>
PNext == UNCHANGED vars
====
