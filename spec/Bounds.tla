------------------------------- MODULE Bounds -------------------------------
(***************************************************************************)
(* C09 at the design level, part 2: the maximum of BoundsCore!OutLen over   *)
(* every float of a type (recursive scan, and the candidate exponents used  *)
(* on traces).  The recursion-free arithmetic lives in BoundsCore so that   *)
(* Apalache can read it (AP_Bounds.tla).                                    *)
(***************************************************************************)
EXTENDS BoundsCore

(* exhaustive maximum over every scientific exponent of the type (slow: used by MC_Bounds only, to justify Cands) *)
RECURSIVE LongestFrom(_, _, _, _, _)
LongestFrom(ty, se, o, fl, best) ==
    IF se > TypeDom(ty).hi THEN best
    ELSE LET a == OutLen(Kept(NMax(ty, se), o.max), se, o, fl)
             b == OutLen(1, se, o, fl)
             m == Max2(a, b)
         IN  LongestFrom(ty, se + 1, o, fl, Max2(m, best))
LongestExhaustive(ty, o, fl) == 1 + LongestFrom(ty, TypeDom(ty).lo, o, fl, 0)

(* OutLen is piecewise monotone in se; the pieces end at the breaks, at the sign change, where the exponent *)
(* gains a digit, and at the ends of the type's range: the maximum is attained at one of these candidates   *)
Cands(ty, o) ==
    LET T == TypeDom(ty) IN
    { T.lo, T.hi, T.sub - 1, T.sub, -100, -99, -10, -9, -1, 0, 9, 10, 99, 100, o.neg - 1, o.neg, o.pos, o.pos + 1 } \cap (T.lo .. T.hi)

LenAt(ty, se, o, fl) == Max2(OutLen(Kept(NMax(ty, se), o.max), se, o, fl), OutLen(1, se, o, fl))

(* the longest output (mantissa sign included) and a scientific exponent where it happens *)
LongestOutput(ty, o, fl) ==
    LET C == Cands(ty, o)
        s == CHOOSE x \in C : \A y \in C : LenAt(ty, x, o, fl) >= LenAt(ty, y, o, fl)
    IN  [len |-> 1 + LenAt(ty, s, o, fl), se |-> s]

=============================================================================
