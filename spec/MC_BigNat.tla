----------------------------- MODULE MC_BigNat -----------------------------
(* Self-check of the arithmetic core: ring identities and agreement with   *)
(* TLC's native integers on a grid, conversions, known constants.          *)
EXTENDS BigNat, TLC

Small == 0..60 \cup {99, 100, 999, 1000, 1001, 4095, 9999, 31622, 46339, 46340}

VARIABLES va, vb
Init == va \in Small /\ vb \in Small
Next == UNCHANGED <<va, vb>>

NativeAgree ==
    /\ ToInt(Add(FromInt(va), FromInt(vb))) = va + vb
    /\ ToInt(Mul(FromInt(va), FromInt(vb))) = va * vb
    /\ (va >= vb => ToInt(Sub(FromInt(va), FromInt(vb))) = va - vb)
    /\ Cmp(FromInt(va), FromInt(vb)) = (IF va < vb THEN -1 ELSE IF va > vb THEN 1 ELSE 0)
    /\ MulAddSmall(FromInt(va), 1000, vb % 1000) = FromInt((va * 1000) + (vb % 1000))

D2_64  == << 1,8,4,4,6,7,4,4,0,7,3,7,0,9,5,5,1,6,1,6 >>
D2_128 == << 3,4,0,2,8,2,3,6,6,9,2,0,9,3,8,4,6,3,4,6,3,3,7,4,6,0,7,4,3,1,7,6,8,2,1,1,4,5,6 >>
D5_27  == << 7,4,5,0,5,8,0,5,9,6,9,2,3,8,2,8,1,2,5 >>
D36_25 == << 8,0,8,2,8,1,2,7,7,4,6,4,7,6,4,0,6,0,6,4,3,1,3,9,6,0,0,4,5,6,5,3,6,2,9,3,3,7,6 >>
D3_40  == << 1,2,1,5,7,6,6,5,4,5,9,0,5,6,9,2,8,8,0,1 >>

ASSUME Pow2(64) = FromDec(D2_64)
ASSUME Pow2(128) = FromDec(D2_128)
ASSUME Pow5(27) = FromDec(D5_27)
ASSUME PowSmall(36, 25) = FromDec(D36_25)
ASSUME PowSmall(3, 40) = FromDec(D3_40)
ASSUME Mul(Pow2(64), Pow2(64)) = Pow2(128)
ASSUME Mul(Pow2(700), Pow5(700)) = ShiftDec(One, 700)
ASSUME Mul(Pow2(2000), Pow5(2000)) = ShiftDec(One, 2000)       \* beyond the tables: PowBig
ASSUME DecLen(Pow2(64)) = 20 /\ DecLen(One) = 1 /\ DecLen(Zero) = 0
ASSUME FromDigits(<< 1,0,0,0,0,0,0,0,0,0,0,0,0,0,0,0,0,0,0,0,0,0,0,0,0,0,0,0,0,0,0,0,0,0,0,0,0,0,0,0,0,0,0,0,0,0,0,0,0,0,0,0,0,0,0,0,0,0,0,0,0,0,0,0,0 >>, 2) = Pow2(64)
ASSUME FromDigits(<< 1,0,0,0,0,0,0,0,0,0,0,0,0,0,0,0,0 >>, 16) = Pow2(64)
ASSUME FromDigits(<< 35, 35, 35, 35, 35 >>, 36) = Sub(PowSmall(36, 5), One)
ASSUME \A r \in 2..36 : FromDigits(<< 1, 0, 0, 0, 0, 0, 0, 0, 0, 0, 0, 0, 0, 0, 0, 0, 0, 0, 0, 0, 0, 0, 0 >>, r) = PowSmall(r, 22)
ASSUME \A r \in 2..36 : IPow(r, ChunkLen(r)) <= 2000000
ASSUME \A r \in 2..36 : PowSmall(r, 7) = Mul(PowOdd(OddPart(r), 7), Pow2(7 * Val2(r)))
\* CmpScaled: 1e23 vs neighbours, pre-check and exact agree
ASSUME CmpScaled(One, 23, 10, FromDec(<<5,9,6,0,4,6,4,4,7,7,5,3,9,0,6,2>>), 24) = 1
ASSUME CmpScaled(One, 23, 10, FromDec(<<5,9,6,0,4,6,4,4,7,7,5,3,9,0,6,3>>), 24) = -1
ASSUME CmpScaled(FromDec(<<9,9,9,9,9,9,9,9,9,9,9,9,9,9,9,9,1,6,1,1,3,9,2>>), 0, 10, FromDec(<<5,9,6,0,4,6,4,4,7,7,5,3,9,0,6,2>>), 24) = 0
ASSUME \A q \in {-400, -30, -1, 0, 1, 30, 400} : \A e \in {-1200, -100, -3, 0, 3, 100, 1200} :
          CmpScaled(FromInt(12345), q, 10, FromInt(54321), e)
            = CmpScaledExact(FromInt(12345), q, 10, FromInt(54321), e)
ASSUME \A b2 \in {3, 6, 7, 12, 36} : \A q \in {-50, -1, 0, 1, 50} : \A e \in {-200, 0, 200} :
          CmpScaled(FromInt(777), q, b2, FromInt(99), e) = CmpScaledExact(FromInt(777), q, b2, FromInt(99), e)
ASSUME CmpScaled(FromInt(3), 2, 7, FromInt(147), 0) = 0
ASSUME CmpScaled(FromInt(3), -2, 6, FromInt(3), -2) = -1     \* 3/36 < 3/4
ASSUME CmpScaled(FromInt(9), -2, 6, One, -2) = 0             \* 9/36 = 1/4
=============================================================================
