CONSTANT Variant = "ok"
CONSTANT WBITS = 8
CONSTANT Radices = {2, 3, 4, 5, 7, 8, 10, 11, 13, 16, 32, 36}
CONSTANT Dense = TRUE
SPECIFICATION Spec
INVARIANT InBounds
INVARIANT FilledExactly
INVARIANT Canonical
INVARIANT Exact
INVARIANT NothingLeft
CHECK_DEADLOCK FALSE
