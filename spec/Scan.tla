-------------------------------- MODULE Scan --------------------------------
(***************************************************************************)
(* The documented number grammar as a finite automaton.                    *)
(*                                                                         *)
(*   number := [sign] [0 prefix] integer [point fraction]                   *)
(*             [exp-char [sign] exponent] [suffix]                          *)
(*                                                                         *)
(* Step(k, f, o, st, c) consumes one byte c in control state st under the   *)
(* format f (record of Format.tla) and the punctuation options o =          *)
(* [exp, point]; k is "float", "int" (signed) or "uint".  The control state *)
(* is finite (digit counts are capped), so the bounded models explore all   *)
(* inputs of all lengths; trace validation folds the same Step over the     *)
(* recorded input bytes and reads the digit sequences off the tags.         *)
(*                                                                         *)
(* The outcome is three-valued: "A" accept, "R" reject, "U" unspecified     *)
(* (documentation silent or self-contradictory; never judged).              *)
(***************************************************************************)
EXTENDS Format

InitSt == [ph |-> "S", neg |-> FALSE, msign |-> 0, nint |-> 0, lead0 |-> FALSE, nfrac |-> 0,
           hasPoint |-> FALSE, hasExp |-> FALSE, esign |-> 0, nexp |-> 0,
           sepn |-> 0, seppre |-> FALSE, ld |-> FALSE, pfx |-> FALSE, sfx |-> FALSE,
           sepany |-> FALSE, why |-> "" ]

Dead(w)   == [InitSt EXCEPT !.ph = "R", !.why = w]
Unspec(w) == [InitSt EXCEPT !.ph = "U", !.why = w]

Cap2(n) == IF n >= 2 THEN 2 ELSE n

IsExpChar(f, o, c) == IF f.case_sensitive_exponent THEN c = o.exp ELSE EqIgnoreCase(c, o.exp)
IsPrefixChar(f, c) == f.base_prefix # 0 /\
                      (IF f.case_sensitive_base_prefix THEN c = f.base_prefix ELSE EqIgnoreCase(c, f.base_prefix))
IsSuffixChar(f, c) == f.base_suffix # 0 /\
                      (IF f.case_sensitive_base_suffix THEN c = f.base_suffix ELSE EqIgnoreCase(c, f.base_suffix))
IsSepChar(f, c)    == f.digit_separator # 0 /\ c = f.digit_separator

CompOf(ph) == IF ph = "F" THEN "frac" ELSE IF ph \in {"X", "Y"} THEN "exp" ELSE "int"
CompRadix(f, comp) == IF comp = "exp" THEN ExponentRadix(f) ELSE Radix(f)
CompSep(f, comp) == IF comp = "int" THEN IntSepFlags(f) ELSE IF comp = "frac" THEN FracSepFlags(f) ELSE ExpSepFlags(f)

(* Is a finished separator run legal?  pre: preceded by a digit of the component; fol: followed *)
(* by one; multi: run longer than 1.  docs/DigitSeparators.md and the setter tables.            *)
SepRunLegal(fl, pre, fol, multi) ==
    /\ (multi => fl.C)
    /\ CASE pre /\ fol     -> fl.I
         [] ~pre /\ fol    -> fl.L
         [] pre /\ ~fol    -> fl.T
         [] OTHER          -> fl.L \/ fl.T          \* digit-less component, e.g. "1._"

(* pending separator run is resolved by the arrival of a non-separator byte (or the end) *)
SepOk(f, st, fol) == st.sepn = 0 \/ SepRunLegal(CompSep(f, CompOf(st.ph)), st.seppre, fol, st.sepn = 2)

ClearSep(st) == [st EXCEPT !.sepn = 0, !.seppre = FALSE]

(* the non-separator byte c in phase I / F / X / Y / E; result [st, tag] *)
StepBody(k, f, o, st, c) ==
    LET isF == k = "float" IN
    CASE st.ph = "I" ->
           IF IsDigit(c, Radix(f))
           THEN [st |-> [st EXCEPT !.nint = Cap2(st.nint + 1),
                                   !.lead0 = IF st.nint = 0 THEN c = CZero ELSE st.lead0, !.ld = TRUE],
                 tag |-> "int"]
           ELSE IF IsPrefixChar(f, c) /\ st.nint = 1 /\ st.lead0 /\ ~st.pfx
           THEN IF st.sepany THEN [st |-> Unspec("separator next to base prefix"), tag |-> "none"]
                ELSE [st |-> [st EXCEPT !.pfx = TRUE, !.nint = 0, !.lead0 = FALSE, !.ld = FALSE], tag |-> "pfx"]
           ELSE IF isF /\ c = o.point
           THEN [st |-> [st EXCEPT !.ph = "F", !.hasPoint = TRUE, !.ld = FALSE], tag |-> "point"]
           ELSE IF isF /\ IsExpChar(f, o, c)
           THEN IF f.no_exponent_notation THEN [st |-> Dead("exponent notation forbidden"), tag |-> "none"]
                ELSE [st |-> [st EXCEPT !.ph = "X", !.hasExp = TRUE, !.ld = FALSE], tag |-> "echar"]
           ELSE IF IsSuffixChar(f, c) /\ st.nint > 0
           THEN [st |-> [st EXCEPT !.ph = "E", !.sfx = TRUE, !.ld = FALSE], tag |-> "sfx"]
           ELSE [st |-> Dead("invalid byte in integer part"), tag |-> "none"]
      [] st.ph = "F" ->
           IF IsDigit(c, Radix(f))
           THEN [st |-> [st EXCEPT !.nfrac = 1, !.ld = TRUE], tag |-> "frac"]
           ELSE IF IsExpChar(f, o, c)
           THEN IF f.no_exponent_notation THEN [st |-> Dead("exponent notation forbidden"), tag |-> "none"]
                ELSE [st |-> [st EXCEPT !.ph = "X", !.hasExp = TRUE, !.ld = FALSE], tag |-> "echar"]
           ELSE IF IsSuffixChar(f, c) /\ (st.nint > 0 \/ st.nfrac > 0)
           THEN [st |-> [st EXCEPT !.ph = "E", !.sfx = TRUE, !.ld = FALSE], tag |-> "sfx"]
           ELSE [st |-> Dead("invalid byte in fraction"), tag |-> "none"]
      [] st.ph = "X" ->
           IF c = CPlus \/ c = CMinus
           THEN [st |-> [st EXCEPT !.ph = "Y", !.esign = IF c = CPlus THEN 1 ELSE 2, !.ld = FALSE], tag |-> "esign"]
           ELSE IF IsDigit(c, ExponentRadix(f))
           THEN [st |-> [st EXCEPT !.ph = "Y", !.nexp = 1, !.ld = TRUE], tag |-> "exp"]
           ELSE IF IsSuffixChar(f, c) THEN [st |-> Unspec("suffix after a digit-less exponent"), tag |-> "none"]
           ELSE [st |-> Dead("invalid byte after exponent character"), tag |-> "none"]
      [] st.ph = "Y" ->
           IF IsDigit(c, ExponentRadix(f))
           THEN [st |-> [st EXCEPT !.nexp = 1, !.ld = TRUE], tag |-> "exp"]
           ELSE IF IsSuffixChar(f, c) /\ st.nexp > 0
           THEN [st |-> [st EXCEPT !.ph = "E", !.sfx = TRUE, !.ld = FALSE], tag |-> "sfx"]
           ELSE [st |-> Dead("invalid byte in exponent"), tag |-> "none"]
      [] OTHER -> [st |-> Dead("byte after base suffix"), tag |-> "none"]

(* one byte, phases after the optional sign *)
StepNoSign(k, f, o, st, c) ==
    IF IsSepChar(f, c) /\ st.ph # "E" THEN
        [st |-> [st EXCEPT !.sepn = Cap2(st.sepn + 1),
                           !.seppre = IF st.sepn = 0 THEN st.ld ELSE st.seppre,
                           !.sepany = TRUE, !.ld = FALSE],
         tag |-> "sep"]
    ELSE
        LET fol == IsDigit(c, CompRadix(f, CompOf(st.ph))) IN
        IF ~SepOk(f, st, fol) THEN [st |-> Dead("digit separator not enabled at this position"), tag |-> "none"]
        (* a separator between the exponent character and the exponent sign belongs to no component *)
        ELSE IF st.sepn > 0 /\ st.ph = "X" /\ (c = CPlus \/ c = CMinus)
        THEN [st |-> Dead("digit separator before the exponent sign"), tag |-> "none"]
        ELSE StepBody(k, f, o, ClearSep(st), c)

(* one byte *)
Step(k, f, o, st, c) ==
    IF st.ph \in {"R", "U"} THEN [st |-> st, tag |-> "none"]
    ELSE IF st.ph = "S" THEN
        IF c = CPlus THEN
            IF f.no_positive_mantissa_sign THEN [st |-> Dead("positive mantissa sign forbidden"), tag |-> "none"]
            ELSE [st |-> [st EXCEPT !.ph = "I", !.msign = 1], tag |-> "sign"]
        ELSE IF c = CMinus /\ k # "uint" THEN [st |-> [st EXCEPT !.ph = "I", !.msign = 2, !.neg = TRUE], tag |-> "sign"]
        ELSE IF f.required_mantissa_sign THEN [st |-> Dead("mantissa sign required"), tag |-> "none"]
        ELSE StepNoSign(k, f, o, [st EXCEPT !.ph = "I"], c)
    ELSE StepNoSign(k, f, o, st, c)

(* verdict at the end of the input: "A", "R" or "U", with the reason *)
Final(k, f, st, len) ==
    LET isF == k = "float" IN
    IF st.ph = "R" THEN [v |-> "R", why |-> st.why]
    ELSE IF st.ph = "U" THEN [v |-> "U", why |-> st.why]
    ELSE IF len = 0 THEN [v |-> "R", why |-> "empty input"]
    ELSE IF st.ph = "S" THEN [v |-> "R", why |-> "empty input"]
    ELSE IF ~SepOk(f, st, FALSE) THEN [v |-> "R", why |-> "digit separator not enabled at this position"]
    ELSE IF st.pfx /\ st.nint = 0 /\ st.nfrac = 0 THEN [v |-> "U", why |-> "base prefix followed by no digits"]
    ELSE IF st.nint = 0 /\ st.nfrac = 0 /\ (st.msign # 0 \/ st.sepany) /\ ~f.required_mantissa_digits
         THEN [v |-> "U", why |-> "no digits at all and digits not required"]
    (* ---- where the documentation contradicts itself (format_builder.rs) the hidden doctest blocks, ---- *)
    (* ---- which upstream executes in CI, decide; without a doctest the case is not judged:           ---- *)
    (*  - required_integer_digits: the setter table lists "1." as invalid, its doctest parses it -> accepted  *)
    (*  - no_exponent_without_fraction: the getter table rejects "1.e3", setter table and doctest accept it   *)
    (*    -> accepted (the flag asks for a decimal point before the exponent)                                 *)
    (*  - no_exponent_without_fraction: the tables list "1.1e" as valid although the default required        *)
    (*    exponent digits reject it and no doctest covers it -> unspecified                                   *)
    ELSE IF isF /\ f.no_exponent_without_fraction /\ st.hasExp /\ st.nexp = 0 /\ st.esign = 0
            /\ f.required_exponent_digits /\ st.nfrac > 0
         THEN [v |-> "U", why |-> "tables accept '1.1e' although exponent digits are required"]
    ELSE IF isF /\ f.required_mantissa_digits /\ st.nint = 0 /\ st.nfrac = 0
         THEN [v |-> "R", why |-> "mantissa digits required"]
    ELSE IF ~isF /\ st.nint = 0 THEN [v |-> "R", why |-> "integer digits required"]
    ELSE IF isF /\ f.required_integer_digits /\ st.nint = 0 THEN [v |-> "R", why |-> "integer digits required"]
    ELSE IF isF /\ f.required_fraction_digits /\ st.hasPoint /\ st.nfrac = 0
         THEN [v |-> "R", why |-> "fraction digits required"]
    (* leading zeros right after a base prefix ("0x00"): the flag docs speak of the integral component, *)
    (* the prefix docs do not mention the interaction -- not judged                                      *)
    ELSE IF st.pfx /\ st.lead0 /\ st.nint = 2 /\ (IF isF THEN f.no_float_leading_zeros ELSE f.no_integer_leading_zeros)
         THEN [v |-> "U", why |-> "leading zeros after a base prefix"]
    ELSE IF isF /\ f.no_float_leading_zeros /\ st.lead0 /\ st.nint = 2
         THEN [v |-> "R", why |-> "leading zeros forbidden"]
    ELSE IF ~isF /\ f.no_integer_leading_zeros /\ st.lead0 /\ st.nint = 2
         THEN [v |-> "R", why |-> "leading zeros forbidden"]
    ELSE IF isF /\ st.hasExp /\ f.required_exponent_digits /\ st.nexp = 0
         THEN [v |-> "R", why |-> "exponent digits required"]
    ELSE IF isF /\ st.hasExp /\ f.required_exponent_sign /\ st.esign = 0
         THEN [v |-> "R", why |-> "exponent sign required"]
    ELSE IF isF /\ st.hasExp /\ f.no_positive_exponent_sign /\ st.esign = 1
         THEN [v |-> "R", why |-> "positive exponent sign forbidden"]
    ELSE IF isF /\ st.hasExp /\ f.no_exponent_without_fraction /\ ~st.hasPoint
         THEN [v |-> "R", why |-> "exponent without fraction"]
    ELSE IF isF /\ ~st.hasExp /\ f.required_exponent_notation
         THEN [v |-> "R", why |-> "exponent notation required"]
    ELSE [v |-> "A", why |-> ""]

(***************************************************************************)
(* Folding Step over a concrete byte tuple (trace validation).             *)
(* RunSlow is the definition: one Step per byte.  Run takes runs of digits  *)
(* inside a component in one stride (BulkDigits = what repeated Steps do);  *)
(* MC_Scan checks Run = RunSlow on all short strings.  The consumed bytes   *)
(* are recorded as segments << tag, lo, hi >>.                              *)
(***************************************************************************)
RECURSIVE SkipDigits(_, _, _, _)
SkipDigits(s, n, i, radix) ==
    IF i > n THEN i ELSE IF IsDigit(s[i], radix) THEN SkipDigits(s, n, i + 1, radix) ELSE i

DigitTag(ph) == IF ph = "I" THEN "int" ELSE IF ph = "F" THEN "frac" ELSE "exp"

BulkDigits(st, c0, cnt) ==
    CASE st.ph = "I" -> [st EXCEPT !.nint = Cap2(st.nint + cnt),
                                   !.lead0 = IF st.nint = 0 THEN c0 = CZero ELSE st.lead0, !.ld = TRUE]
      [] st.ph = "F" -> [st EXCEPT !.nfrac = 1, !.ld = TRUE]
      [] OTHER       -> [st EXCEPT !.nexp = 1, !.ld = TRUE]

(* extend the last segment when it has the same tag and is adjacent *)
AddSeg(segs, tag, lo, hi) ==
    LET m == Len(segs) IN
    IF m > 0 /\ segs[m][1] = tag /\ segs[m][3] = lo - 1
    THEN [segs EXCEPT ![m] = << tag, segs[m][2], hi >>]
    ELSE Append(segs, << tag, lo, hi >>)

RECURSIVE RunSlowFrom(_, _, _, _, _, _, _, _)
RunSlowFrom(k, f, o, s, n, i, st, segs) ==
    IF i > n \/ st.ph \in {"R", "U"} THEN [st |-> st, segs |-> segs, stop |-> i]
    ELSE LET r == Step(k, f, o, st, s[i])
         IN  RunSlowFrom(k, f, o, s, n, i + 1, r.st, AddSeg(segs, r.tag, i, i))
RunSlow(k, f, o, s, n) == RunSlowFrom(k, f, o, s, n, 1, InitSt, << >>)

RECURSIVE RunFrom(_, _, _, _, _, _, _, _)
RunFrom(k, f, o, s, n, i, st, segs) ==
    IF i > n \/ st.ph \in {"R", "U"} THEN [st |-> st, segs |-> segs, stop |-> i]
    ELSE IF st.ph \in {"I", "F", "Y"} /\ st.sepn = 0 /\ IsDigit(s[i], CompRadix(f, CompOf(st.ph)))
         THEN LET j == SkipDigits(s, n, i + 1, CompRadix(f, CompOf(st.ph)))
              IN  RunFrom(k, f, o, s, n, j, BulkDigits(st, s[i], j - i), AddSeg(segs, DigitTag(st.ph), i, j - 1))
         ELSE LET r == Step(k, f, o, st, s[i])
              IN  RunFrom(k, f, o, s, n, i + 1, r.st, AddSeg(segs, r.tag, i, i))

Run(k, f, o, s, n) == RunFrom(k, f, o, s, n, 1, InitSt, << >>)

(* digit values of the bytes in the segments tagged `t`, in order, as a tuple *)
RangeDigits(s, lo, hi) == SubSeq([j \in 1..(hi - lo + 1) |-> DigitVal(s[lo + j - 1])], 1, hi - lo + 1)
RECURSIVE DigitsTagged(_, _, _, _, _)
DigitsTagged(s, segs, t, i, acc) ==
    IF i > Len(segs) THEN acc
    ELSE DigitsTagged(s, segs, t, i + 1,
                      IF segs[i][1] = t THEN acc \o RangeDigits(s, segs[i][2], segs[i][3]) ELSE acc)

(* result of a complete scan: verdict + the number's parts *)
ScanComplete(k, f, o, s, n) ==
    LET r   == Run(k, f, o, s, n)
        fin == Final(k, f, r.st, n)
    IN  [v |-> fin.v, why |-> fin.why, neg |-> r.st.neg, esign |-> r.st.esign,
         int  |-> IF fin.v = "A" THEN DigitsTagged(s, r.segs, "int", 1, << >>) ELSE << >>,
         frac |-> IF fin.v = "A" THEN DigitsTagged(s, r.segs, "frac", 1, << >>) ELSE << >>,
         exp  |-> IF fin.v = "A" THEN DigitsTagged(s, r.segs, "exp", 1, << >>) ELSE << >>,
         hassep |-> r.st.sepany, hasExp |-> r.st.hasExp, hasPoint |-> r.st.hasPoint, segs |-> r.segs]

(* first / last byte index of the segments tagged t (0 if none) *)
RECURSIVE SegLo(_, _, _)
SegLo(segs, t, i) == IF i > Len(segs) THEN 0 ELSE IF segs[i][1] = t THEN segs[i][2] ELSE SegLo(segs, t, i + 1)
RECURSIVE SegHi(_, _, _)
SegHi(segs, t, i) == IF i = 0 THEN 0 ELSE IF segs[i][1] = t THEN segs[i][3] ELSE SegHi(segs, t, i - 1)
=============================================================================
