------------------------------ MODULE MC_Bounds -----------------------------
(***************************************************************************)
(* Design check of the documented write-float buffer bound (C09), decimal: *)
(* for every option set of the grid and both float types, the longest      *)
(* output any float of the type can produce (Bounds!LongestOutput, over    *)
(* all scientific exponents of the type) fits the documented bound.        *)
(* Variant = "ok" is the design; "exp_room_minus_1" (the exponent room one *)
(* byte short) is the negative control: TLC finds min_significant_digits   *)
(* >= 28 with a break beyond 13 as the counterexample.                     *)
(* LenAgrees (checked by MC_FloatWrite, which EXTENDS this arithmetic via  *)
(* INSTANCE) ties OutLen to the constructive byte layout.                  *)
(***************************************************************************)
EXTENDS Bounds, TLC

CONSTANT Variant, Deep, Exhaustive

Mins   == IF Exhaustive THEN {0, 17, 300} ELSE IF Deep THEN {0, 1, 2, 9, 16, 17, 18, 27, 28, 29, 40, 64, 300, 324, 325, 700, 1100} ELSE {0, 1, 17, 28, 29, 64, 300, 700}
Maxs   == IF Exhaustive THEN {0, 5} ELSE IF Deep THEN {0, 1, 2, 5, 16, 17, 18, 40, 1100} ELSE {0, 1, 5, 17, 40}
Negs   == IF Exhaustive THEN {-1, -5, -45, -400} ELSE IF Deep THEN {-1, -2, -5, -11, -12, -13, -14, -20, -45, -46, -100, -307, -308, -323, -324, -325, -400, -1100}
                  ELSE {-1, -5, -12, -13, -14, -45, -100, -324, -400}
Poss   == IF Exhaustive THEN {1, 9, 38, 400} ELSE IF Deep THEN {1, 2, 9, 11, 12, 13, 14, 20, 38, 39, 100, 307, 308, 309, 400, 1100}
                  ELSE {1, 9, 12, 13, 14, 38, 100, 308, 400}
Flags  == { [noexp |-> FALSE, reqexp |-> FALSE, reqsign |-> FALSE],
            [noexp |-> FALSE, reqexp |-> FALSE, reqsign |-> TRUE],
            [noexp |-> FALSE, reqexp |-> TRUE,  reqsign |-> TRUE],
            [noexp |-> TRUE,  reqexp |-> FALSE, reqsign |-> FALSE] }

VARIABLES ty, o, fl
vars == << ty, o, fl >>

(* two steps only so that TLC's workers share the work: the first picks type, flags and breaks, the second the rest *)
Init == ty = "none" /\ fl = << >> /\ o = << >>
Pick1 == /\ ty = "none"
         /\ ty' \in {"pick:f64", "pick:f32"}
         /\ fl' \in Flags
         /\ \E ng \in Negs, ps \in Poss : o' = [neg |-> ng, pos |-> ps]
Pick2 == /\ ty \in {"pick:f64", "pick:f32"}
         /\ ty' = (IF ty = "pick:f64" THEN "f64" ELSE "f32")
         /\ fl' = fl
         /\ \E mn \in Mins, mx \in Maxs, tr \in BOOLEAN :
              /\ (mx = 0 \/ mn = 0 \/ mn <= mx)
              /\ o' = [min |-> mn, max |-> mx, neg |-> o.neg, pos |-> o.pos, trim |-> tr]
Next == Pick1 \/ Pick2
Spec == Init /\ [][Next]_vars
Picked == ty \in {"f64", "f32"}

Longest == LongestOutput(ty, o, fl)
Sufficient == Picked => \A pow2 \in BOOLEAN : Longest.len <= DocBound(o, fl, pow2, 64, Variant)

(* the candidate exponents are enough: same maximum as the scan of every exponent (checked where Exhaustive is set) *)
CandidatesExact == Exhaustive /\ Picked => Longest.len = LongestExhaustive(ty, o, fl)

(* the bound is not absurdly loose either: within 64 + 28 bytes of the longest output when that is long *)
NotWasteful == Picked /\ Longest.len >= 64 => DocBound(o, fl, FALSE, 64, "ok") - Longest.len <= 1100

(* sanity of the arithmetic: known lengths *)
ASSUME OutLen(17, -308, [min |-> 0, max |-> 0, neg |-> -5, pos |-> 9, trim |-> FALSE], [noexp |-> FALSE, reqexp |-> FALSE, reqsign |-> FALSE]) = 23   \* 2.2250738585072014e-308
ASSUME OutLen(1, 0, [min |-> 0, max |-> 0, neg |-> -5, pos |-> 9, trim |-> FALSE], [noexp |-> FALSE, reqexp |-> FALSE, reqsign |-> FALSE]) = 3         \* 1.0
ASSUME OutLen(1, 0, [min |-> 0, max |-> 0, neg |-> -5, pos |-> 9, trim |-> TRUE], [noexp |-> FALSE, reqexp |-> FALSE, reqsign |-> FALSE]) = 1          \* 1
ASSUME OutLen(6, -300, [min |-> 300, max |-> 0, neg |-> -300, pos |-> 9, trim |-> FALSE], [noexp |-> FALSE, reqexp |-> FALSE, reqsign |-> FALSE]) = 601 \* the example in the code comment
ASSUME OutLen(2, 10, [min |-> 0, max |-> 0, neg |-> -5, pos |-> 9, trim |-> FALSE], [noexp |-> FALSE, reqexp |-> FALSE, reqsign |-> TRUE]) = 7          \* 1.2e+10
=============================================================================
