------------------------------- MODULE BigNat -------------------------------
(***************************************************************************)
(* Arbitrary-precision naturals in pure TLA+, evaluable by TLC.            *)
(*                                                                         *)
(* A natural is a tuple of limbs in base 1000, least significant first,    *)
(* without a zero most-significant limb; << >> is zero.  Base 1000 keeps    *)
(* every column sum of a product below 2^31 for operands of up to ~2000     *)
(* limbs (TLC integers are 32-bit and overflow is an error, never a wrap),  *)
(* and lets decimal digit strings be regrouped without multiplication.      *)
(*                                                                         *)
(* Everything that judges implementation results is written in verify form *)
(* (compare exact integers); there is no division of big numbers.          *)
(***************************************************************************)
EXTENDS Integers, Sequences

CONSTANT PowHiN          \* the tables of 2^(32 i) and 5^(32 i) hold i = 0..PowHiN

B == 1000

Zero == << >>
One  == << 1 >>

Max(a, b) == IF a > b THEN a ELSE b
Min(a, b) == IF a < b THEN a ELSE b

IsZero(a) == a = << >>

(* highest index holding a non-zero limb, 0 if none *)
RECURSIVE TopIdx(_, _)
TopIdx(s, i) == IF i = 0 THEN 0 ELSE IF s[i] # 0 THEN i ELSE TopIdx(s, i - 1)

Trim(s) == LET n == Len(s) IN
           IF n = 0 THEN s
           ELSE IF s[n] # 0 THEN s
           ELSE LET h == TopIdx(s, n) IN IF h = 0 THEN << >> ELSE SubSeq(s, 1, h)

(* f[1..n]: column values (possibly >= B or negative; TLA+ \div and % floor, *)
(* so borrows propagate correctly as long as the total is non-negative).    *)
RECURSIVE CarryAcc(_, _, _, _, _)
CarryAcc(f, n, i, c, acc) ==
    IF i > n
    THEN IF c = 0 THEN acc ELSE CarryAcc(f, n, i, c \div B, Append(acc, c % B))
    ELSE LET t == f[i] + c IN CarryAcc(f, n, i + 1, t \div B, Append(acc, t % B))

Carry(f, n) == Trim(CarryAcc(f, n, 1, 0, << >>))

FromInt(k) == Carry(<< k >>, 1)          \* 0 <= k < 2^31

Add(a, b) ==
    LET la == Len(a)  lb == Len(b)  n == Max(la, lb)
    IN  Carry([k \in 1..n |-> (IF k <= la THEN a[k] ELSE 0) + (IF k <= lb THEN b[k] ELSE 0)], n)

(* a - b, requires a >= b *)
Sub(a, b) ==
    LET la == Len(a)  lb == Len(b)
    IN  Carry([k \in 1..la |-> a[k] - (IF k <= lb THEN b[k] ELSE 0)], la)

(* a * k, 0 <= k <= 2 000 000 *)
MulSmall(a, k) == IF k = 0 THEN << >> ELSE LET la == Len(a) IN Carry([i \in 1..la |-> a[i] * k], la)

(* a * k + c, 0 <= k <= 2 000 000, 0 <= c < 2^30 *)
MulAddSmall(a, k, c) ==
    LET la == Len(a)
    IN  IF la = 0 THEN FromInt(c)
        ELSE Carry([i \in 1..la |-> IF i = 1 THEN a[1] * k + c ELSE a[i] * k], la)

RECURSIVE ColSum(_, _, _, _, _, _)
ColSum(a, b, k, i, hi, acc) ==
    IF i > hi THEN acc ELSE ColSum(a, b, k, i + 1, hi, acc + a[i] * b[k + 1 - i])

Mul(a, b) ==
    LET la == Len(a)  lb == Len(b)
    IN  IF la = 0 \/ lb = 0 THEN << >>
        ELSE IF lb = 1 THEN MulSmall(a, b[1])
        ELSE IF la = 1 THEN MulSmall(b, a[1])
        ELSE LET n == la + lb - 1
             IN  Carry([k \in 1..n |->
                          ColSum(a, b, k, (IF k > lb THEN k + 1 - lb ELSE 1),
                                 (IF k < la THEN k ELSE la), 0)], n)

RECURSIVE CmpFrom(_, _, _)
CmpFrom(a, b, i) ==
    IF i = 0 THEN 0
    ELSE IF a[i] < b[i] THEN -1
    ELSE IF a[i] > b[i] THEN 1
    ELSE CmpFrom(a, b, i - 1)

(* -1, 0, 1 *)
Cmp(a, b) ==
    LET la == Len(a)  lb == Len(b)
    IN  IF la < lb THEN -1 ELSE IF la > lb THEN 1 ELSE CmpFrom(a, b, la)

Eq(a, b) == a = b

(* multiply by 1000^k *)
RECURSIVE Zeros(_)
Zeros(k) == IF k = 0 THEN << >> ELSE IF k = 1 THEN << 0 >>
            ELSE LET h == Zeros(k \div 2) IN IF k % 2 = 0 THEN h \o h ELSE h \o h \o << 0 >>
ShiftLimbs(a, k) == IF a = << >> \/ k = 0 THEN a ELSE Zeros(k) \o a

(* multiply by 10^k, k >= 0 *)
ShiftDec(a, k) ==
    LET r == k % 3
        s == ShiftLimbs(a, k \div 3)
    IN  IF r = 0 THEN s ELSE IF r = 1 THEN MulSmall(s, 10) ELSE MulSmall(s, 100)

(***************************************************************************)
(* Conversions from digit strings (most significant digit first).          *)
(***************************************************************************)
RECURSIVE DecLimbs(_, _, _)
DecLimbs(d, hi, acc) ==
    IF hi <= 0 THEN acc
    ELSE LET l0 == d[hi]
             l1 == IF hi >= 2 THEN d[hi - 1] ELSE 0
             l2 == IF hi >= 3 THEN d[hi - 2] ELSE 0
         IN  DecLimbs(d, hi - 3, Append(acc, l0 + 10 * l1 + 100 * l2))

(* d[lo..hi] read as a decimal numeral *)
RECURSIVE DecLimbsR(_, _, _, _)
DecLimbsR(d, lo, hi, acc) ==
    IF hi < lo THEN acc
    ELSE LET l0 == d[hi]
             l1 == IF hi - 1 >= lo THEN d[hi - 1] ELSE 0
             l2 == IF hi - 2 >= lo THEN d[hi - 2] ELSE 0
         IN  DecLimbsR(d, lo, hi - 3, Append(acc, l0 + 10 * l1 + 100 * l2))

FromDec(d) == Trim(DecLimbs(d, Len(d), << >>))
FromDecRange(d, lo, hi) == Trim(DecLimbsR(d, lo, hi, << >>))

(* how many digits of radix r fit in a chunk whose weight stays <= 2 000 000 *)
ChunkLen(r) == IF r = 2 THEN 20 ELSE IF r = 3 THEN 13 ELSE IF r = 4 THEN 10 ELSE IF r = 5 THEN 9
               ELSE IF r = 6 THEN 8 ELSE IF r = 7 THEN 7 ELSE IF r <= 9 THEN 6 ELSE IF r <= 18 THEN 5
               ELSE 4          \* 36^4 = 1 679 616

RECURSIVE IPow(_, _)
IPow(b, k) == IF k = 0 THEN 1 ELSE b * IPow(b, k - 1)     \* native, caller guarantees < 2^31

RECURSIVE ChunkVal(_, _, _, _, _)
ChunkVal(d, i, hi, r, acc) == IF i > hi THEN acc ELSE ChunkVal(d, i + 1, hi, r, acc * r + d[i])

RECURSIVE HornerChunks(_, _, _, _, _, _)
HornerChunks(d, i, hi, r, cl, acc) ==
    IF i > hi THEN acc
    ELSE LET j == Min(hi, i + cl - 1)
         IN  HornerChunks(d, j + 1, hi, r, cl,
                          MulAddSmall(acc, IPow(r, j - i + 1), ChunkVal(d, i, j, r, 0)))

(* d[lo..hi] are digit values (0 <= d[i] < r), most significant first *)
FromDigitsRange(d, lo, hi, r) ==
    IF r = 10 THEN FromDecRange(d, lo, hi) ELSE HornerChunks(d, lo, hi, r, ChunkLen(r), << >>)
FromDigits(d, r) == FromDigitsRange(d, 1, Len(d), r)

(* value as a native integer; caller guarantees it is below 2^31 *)
ToInt(a) == IF Len(a) = 0 THEN 0 ELSE IF Len(a) = 1 THEN a[1]
            ELSE IF Len(a) = 2 THEN a[1] + B * a[2]
            ELSE IF Len(a) = 3 THEN a[1] + B * a[2] + B * B * a[3]
            ELSE a[1] + B * a[2] + B * B * a[3] + B * B * B * a[4]
FitsInt(a) == Len(a) <= 3 \/ (Len(a) = 4 /\ a[4] <= 1)      \* < 2 * 10^9

(* number of decimal digits (0 for zero) *)
DecLen(a) == LET n == Len(a) IN
             IF n = 0 THEN 0
             ELSE 3 * (n - 1) + (IF a[n] >= 100 THEN 3 ELSE IF a[n] >= 10 THEN 2 ELSE 1)

IsEven(a) == a = << >> \/ a[1] % 2 = 0

(***************************************************************************)
(* Powers.  Two-level tables for 2 and 5 (hi[k \div 32] * lo[k % 32]); the  *)
(* size of the hi tables is a parameter so start-up stays cheap.           *)
(***************************************************************************)
RECURSIVE PowSeq(_, _, _, _)      \* << x^0 * s, x^1 * s, ... >> as a tuple of n+1 BigNats, step = multiply by m
PowSeq(cur, m, n, acc) == IF n = 0 THEN Append(acc, cur) ELSE PowSeq(Mul(cur, m), m, n - 1, Append(acc, cur))

Pow2Lo == PowSeq(One, << 2 >>, 31, << >>)            \* Pow2Lo[j+1] = 2^j, j = 0..31
Pow5Lo == PowSeq(One, << 5 >>, 31, << >>)            \* Pow5Lo[j+1] = 5^j
P2_32 == Mul(Pow2Lo[32], << 2 >>)                     \* 2^32
P5_32 == Mul(Pow5Lo[32], << 5 >>)                     \* 5^32

Pow2Hi == PowSeq(One, P2_32, PowHiN, << >>)           \* Pow2Hi[i+1] = 2^(32 i)
Pow5Hi == PowSeq(One, P5_32, PowHiN, << >>)

(* generic power by squaring; base is a BigNat *)
RECURSIVE PowBig(_, _)
PowBig(x, k) == IF k = 0 THEN One
                ELSE IF k = 1 THEN x
                ELSE LET h == PowBig(x, k \div 2)
                         s == Mul(h, h)
                     IN  IF k % 2 = 0 THEN s ELSE Mul(s, x)

PowSmall(b, k) == PowBig(FromInt(b), k)              \* b^k for a small base

Pow2(k) == IF k <= 32 * PowHiN + 31 THEN Mul(Pow2Hi[(k \div 32) + 1], Pow2Lo[(k % 32) + 1])
           ELSE PowBig(<< 2 >>, k)
Pow5(k) == IF k <= 32 * PowHiN + 31 THEN Mul(Pow5Hi[(k \div 32) + 1], Pow5Lo[(k % 32) + 1])
           ELSE PowBig(<< 5 >>, k)

(* odd part and 2-adic valuation of a radix 2..36 *)
RECURSIVE Val2(_)
Val2(b) == IF b % 2 = 1 THEN 0 ELSE 1 + Val2(b \div 2)
RECURSIVE OddPart(_)
OddPart(b) == IF b % 2 = 1 THEN b ELSE OddPart(b \div 2)

PowOdd(o, k) == IF o = 1 \/ k = 0 THEN One ELSE IF o = 5 THEN Pow5(k) ELSE PowSmall(o, k)

(***************************************************************************)
(* CmpScaled(D, q, b, M, e) = sign of  D * b^q  -  M * 2^e                  *)
(* D, M BigNat; q, e integers (|q|, |e| < 2^30); b in 2..36.               *)
(* Every factor is moved to the side where its exponent is non-negative.   *)
(* A magnitude pre-check (decimal lengths with safe margins) avoids the    *)
(* big products when the two sides differ by orders of magnitude.          *)
(***************************************************************************)
(* floor and ceiling of 1000 * log10(b) *)
Log10Lo == << 0, 301, 477, 602, 698, 778, 845, 903, 954, 1000, 1041, 1079, 1113, 1146, 1176, 1204,
              1230, 1255, 1278, 1301, 1322, 1342, 1361, 1380, 1397, 1414, 1431, 1447, 1462, 1477,
              1491, 1505, 1518, 1531, 1544, 1556 >>
Log10Hi == << 0, 302, 478, 603, 699, 779, 846, 904, 955, 1000, 1042, 1080, 1114, 1147, 1177, 1205,
              1231, 1256, 1279, 1302, 1323, 1343, 1362, 1381, 1398, 1415, 1432, 1448, 1463, 1478,
              1492, 1506, 1519, 1532, 1545, 1557 >>

Clamp(x, lo, hi) == IF x < lo THEN lo ELSE IF x > hi THEN hi ELSE x

(* bounds, in thousandths of a decimal order of magnitude, of log10(N * b^q) for N # 0 *)
MagLo(N, q, b) == LET qq == Clamp(q, -1000000, 1000000)
                  IN  1000 * (DecLen(N) - 1) + (IF qq >= 0 THEN qq * Log10Lo[b] ELSE qq * Log10Hi[b])
MagHi(N, q, b) == LET qq == Clamp(q, -1000000, 1000000)
                  IN  1000 * DecLen(N) + (IF qq >= 0 THEN qq * Log10Hi[b] ELSE qq * Log10Lo[b])

CmpScaledExact(D, q, b, M, e) ==
    LET o == OddPart(b)
        s == Val2(b)
        t == e - s * q                       \* D * o^q  vs  M * 2^t
        L1 == IF q > 0 THEN Mul(D, PowOdd(o, q)) ELSE D
        R1 == IF q < 0 THEN Mul(M, PowOdd(o, -q)) ELSE M
        L2 == IF t < 0 THEN Mul(L1, Pow2(-t)) ELSE L1
        R2 == IF t > 0 THEN Mul(R1, Pow2(t)) ELSE R1
    IN  Cmp(L2, R2)

CmpScaled(D, q, b, M, e) ==
    IF D = << >> THEN (IF M = << >> THEN 0 ELSE -1)
    ELSE IF M = << >> THEN 1
    ELSE IF MagLo(D, q, b) > MagHi(M, e, 2) + 1000 THEN 1
    ELSE IF MagHi(D, q, b) + 1000 < MagLo(M, e, 2) THEN -1
    ELSE CmpScaledExact(D, q, b, M, e)

=============================================================================
