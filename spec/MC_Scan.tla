------------------------------- MODULE MC_Scan ------------------------------
(***************************************************************************)
(* Exhaustive exploration of the grammar automaton (Scan!Step) for every    *)
(* format of the catalogue that carries syntax or separator flags.  The     *)
(* control state is finite, so this covers inputs of every length.          *)
(*                                                                         *)
(* Three automata run in lock step on the same input:                       *)
(*   st  : format f on the input s                                          *)
(*   st0 : format f on s with all separator bytes deleted                   *)
(*   st1 : the separator-free counterpart f0 of f on s                      *)
(* Invariants (C13 at the design level):                                    *)
(*   SepDeletion   accept(st) => accept(st0), and every digit byte has the  *)
(*                 same role (integer / fraction / exponent) in both        *)
(*   NoSepSame     while s contains no separator byte, st = st1             *)
(* and C10/C11 at the design level: Step is total, a dead state stays dead. *)
(*                                                                         *)
(* The input so far is a history variable hidden from the state space by    *)
(* VIEW; each explored transition prints one witness (W lines) which the    *)
(* drivers of C10-C13 replay against the implementation.                    *)
(***************************************************************************)
EXTENDS Scan, Json, IOUtils, TLC

FormatsJson == JsonDeserialize(IOEnv.FORMATS)
NF   == Len(FormatsJson)
FMTS == [i \in 1..NF |-> PackedView(BuildFormat(FormatsJson[i].calls))]

RECURSIVE HasTag(_, _, _)
HasTag(tags, t, i) == IF i > Len(tags) THEN FALSE ELSE IF tags[i] = t THEN TRUE ELSE HasTag(tags, t, i + 1)
Selected == { i \in 1..NF : i = 1 \/ HasTag(FormatsJson[i].tags, "syntax", 1) \/ HasTag(FormatsJson[i].tags, "sep", 1) }

OptsFor(f) == [exp |-> IF Radix(f) >= 15 THEN CCaret ELSE CLowerE, point |-> CDot]

Flip(c) == IF IsUpper(c) THEN c + 32 ELSE IF IsLower(c) THEN c - 32 ELSE c
Alphabet(f) ==
    {48, 49, CPlus, CMinus, CDot, OptsFor(f).exp, Flip(OptsFor(f).exp), 122}
    \cup (IF f.digit_separator # 0 THEN {f.digit_separator} ELSE {})
    \cup (IF f.base_prefix # 0 THEN {f.base_prefix, Flip(f.base_prefix)} ELSE {})
    \cup (IF f.base_suffix # 0 THEN {f.base_suffix, Flip(f.base_suffix)} ELSE {})
    \cup (IF Radix(f) \in {16, 32} THEN {97} ELSE {})                                \* a digit of the mantissa only
    \cup (IF ExponentRadix(f) > Radix(f) /\ Radix(f) < 10 THEN {57} ELSE {})        \* a digit of the exponent only

VARIABLES fi, kind, st, st0, st1, agree, hist
view == << fi, kind, st, st0, st1, agree >>

Init == /\ fi \in Selected /\ kind \in {"float", "int"}
        /\ st = InitSt /\ st0 = InitSt /\ st1 = InitSt /\ agree = TRUE /\ hist = << >>

DeadS(s) == s.ph \in {"R", "U"}

Next ==
    /\ ~(DeadS(st) /\ DeadS(st0) /\ DeadS(st1))
    /\ \E c \in Alphabet(FMTS[fi]) :
         LET f  == FMTS[fi]
             o  == OptsFor(f)
             r  == Step(kind, f, o, st, c)
             r0 == IF IsSepChar(f, c) THEN [st |-> st0, tag |-> "sep"] ELSE Step(kind, f, o, st0, c)
             r1 == Step(kind, NoSep(f), o, st1, c)
         IN  /\ st' = r.st /\ st0' = r0.st /\ st1' = r1.st
             /\ agree' = (agree /\ (IsSepChar(f, c) \/ DeadS(r.st) \/ r.tag = r0.tag))
             /\ hist' = Append(hist, c)
             /\ PrintT(<< "W", ToJson([f |-> fi - 1, k |-> kind, s |-> hist']) >>)
    /\ UNCHANGED << fi, kind >>

Verdict(f, s, n) == Final(kind, f, s, n).v

SepDeletion ==
    LET f == FMTS[fi] IN
    Verdict(f, st, Len(hist)) = "A" => (Verdict(f, st0, 1) = "A" /\ agree)

NoSepSame ==
    LET f == FMTS[fi] IN
    ~st.sepany => (st1 = st \/ (DeadS(st) /\ DeadS(st1) /\ st.ph = st1.ph))

DeadStaysDead == [][DeadS(st) => st' = st]_<< fi, kind, st, st0, st1, agree, hist >>
Spec == Init /\ [][Next]_<< fi, kind, st, st0, st1, agree, hist >>
=============================================================================
