CONSTANT PowHiN = 4
INIT Init
NEXT Next
INVARIANT RoundingAgrees
INVARIANT RoundingUnique
INVARIANT OneUlpMeaning
CHECK_DEADLOCK FALSE
