----------------------------- MODULE MC_IntWrite ----------------------------
(***************************************************************************)
(* Design model of the integer writer (C03, C09 at the design level), on a  *)
(* toy word size: "u64" is a WBITS-bit word, "u128" a 2*WBITS-bit one.      *)
(*                                                                         *)
(*   Count      digit_count: 4 digits, 2 digits, 1 digit at a time          *)
(*              (wide values: step + count of the high part(s))             *)
(*   WriteLow / WriteMid / WriteHigh                                        *)
(*              write_digits from the right end of buffer[..count], in      *)
(*              chunks of 4 / 2 / 1 digits (table look-ups are modelled as  *)
(*              the two digits they stand for); the low and middle parts    *)
(*              of a wide value are zero-padded to `step` digits            *)
(*                                                                         *)
(* Invariants: no write outside buffer[..count] (the code does these        *)
(* writes unchecked), the buffer is filled exactly (index = 0 at the end),  *)
(* no leading zero, and the digits denote the value.                        *)
(* Variant "ok" is the design.  Negative controls: "count_gt" (last count   *)
(* loop tests > instead of >=: exact powers get one digit too few),         *)
(* "no_pad" (low part not zero-padded), "step_plus_1" (step one too large). *)
(***************************************************************************)
EXTENDS Integers, Sequences, TLC

CONSTANTS Variant, WBITS, Radices, Dense

RECURSIVE Pow(_, _)
Pow(b, k) == IF k = 0 THEN 1 ELSE b * Pow(b, k - 1)
WORD == Pow(2, WBITS)              \* values below WORD fit the narrow type
WIDE == WORD * WORD

(* u64_step: the largest k with r^k < WORD *)
RECURSIVE StepFrom(_, _)
StepFrom(r, k) == IF Pow(r, k + 1) < WORD THEN StepFrom(r, k + 1) ELSE k
Step(r) == StepFrom(r, 1) + (IF Variant = "step_plus_1" THEN 1 ELSE 0)

(* digit_count!(@naive) *)
RECURSIVE Loop(_, _, _, _)
Loop(value, d, m, inc) == IF value >= m THEN Loop(value \div m, d + inc, m, inc) ELSE << value, d >>
RECURSIVE LoopGt(_, _, _, _)
LoopGt(value, d, m, inc) == IF value > m THEN LoopGt(value \div m, d + inc, m, inc) ELSE << value, d >>
NaiveCount(v, r) ==
    LET a == Loop(v, 1, r * r * r * r, 4)
        b == Loop(a[1], a[2], r * r, 2)
        c == IF Variant = "count_gt" THEN LoopGt(b[1], b[2], r, 1) ELSE Loop(b[1], b[2], r, 1)
    IN  c[2]

WideCount(v, r) ==
    IF v < WORD THEN NaiveCount(v, r)
    ELSE LET st == Step(r)
             hi == v \div Pow(r, st)
         IN  IF hi < WORD THEN st + NaiveCount(hi, r)
             ELSE LET hi2 == hi \div Pow(r, st) IN
                  st + st + (IF hi2 # 0 THEN NaiveCount(hi2, r) ELSE 0)

(* write_digits: returns [buf, index, oob]; buf is a function 1..count -> digit (or -1 = not written) *)
Put(b, i, d) == IF i >= 1 /\ i <= Len(b.buf) /\ ~b.oob THEN [b EXCEPT !.buf[i] = d] ELSE [b EXCEPT !.oob = TRUE]
Put2(b, idx, r, two) == Put(Put(b, idx, two % r), idx - 1, two \div r)          \* table[two], table[two + 1]
RECURSIVE W4(_, _, _, _)
W4(value, r, b, idx) ==
    LET r2 == r * r  r4 == r2 * r2 IN
    IF value >= r4 THEN
        LET q == value % r4 IN
        W4(value \div r4, r, Put2(Put2(b, idx, r, q % r2), idx - 2, r, q \div r2), idx - 4)
    ELSE << value, b, idx >>
RECURSIVE W2(_, _, _, _)
W2(value, r, b, idx) ==
    LET r2 == r * r IN
    IF value >= r2 THEN W2(value \div r2, r, Put2(b, idx, r, value % r2), idx - 2) ELSE << value, b, idx >>
WriteDigits(value, r, b, idx) ==
    LET a == W4(value, r, b, idx)
        c == W2(a[1], r, a[2], a[3])
    IN  IF c[1] < r THEN << Put(c[2], c[3], c[1]), c[3] - 1 >>
        ELSE << Put2(c[2], c[3], r, c[1]), c[3] - 2 >>

RECURSIVE Fill(_, _, _)
Fill(b, from, to) == IF from > to THEN b ELSE Fill(Put(b, from, 0), from + 1, to)     \* buffer[end..index].fill('0'), 1-based
WriteStepDigits(value, r, b, idx) ==
    LET w   == WriteDigits(value, r, b, idx)
        end == IF idx - Step(r) < 0 THEN 0 ELSE idx - Step(r)
    IN  IF Variant = "no_pad" THEN << w[1], end >> ELSE << Fill(w[1], end + 1, w[2]), end >>

VARIABLES pc, r, v, count, b, index, rest
vars == << pc, r, v, count, b, index, rest >>

RECURSIVE PowersUpTo(_, _, _)
PowersUpTo(rr, x, lim) == IF x > lim THEN {} ELSE {x} \cup PowersUpTo(rr, x * rr, lim)
Near(S) == UNION { {x - 1, x, x + 1} : x \in S }
Interesting(rr) ==
    IF Dense THEN 0..(WIDE - 1)
    ELSE LET P  == PowersUpTo(rr, 1, WIDE)
             s1 == Pow(rr, Step(rr))
             s2 == s1 * s1
         IN  ( (0..(IF 2 * rr * rr * rr * rr + 2 < 12000 THEN 2 * rr * rr * rr * rr + 2 ELSE 12000)) \cup Near(P) \cup Near({WORD, WIDE - 2})
               \cup Near({s1, s2, s1 * (rr - 1), s1 * WORD, s2 * (rr - 1), s1 * (WORD - 1), s1 * WORD + s1 - 1}) ) \cap (0..(WIDE - 1))

Init == /\ pc = "start" /\ r \in Radices /\ v \in Interesting(r)
        /\ count = 0 /\ b = [buf |-> << >>, oob |-> FALSE] /\ index = 0 /\ rest = 0

Count == /\ pc = "start"
         /\ count' = WideCount(v, r)
         /\ b' = [buf |-> [i \in 1..WideCount(v, r) |-> -1], oob |-> FALSE]
         /\ index' = WideCount(v, r)
         /\ rest' = v
         /\ pc' = IF v < WORD THEN "high" ELSE "low"
         /\ UNCHANGED << r, v >>

WriteLow == /\ pc = "low"
            /\ LET st == Pow(r, Step(r))
                   w  == WriteStepDigits(rest % st, r, b, index)
               IN  /\ b' = w[1] /\ index' = w[2] /\ rest' = rest \div st
                   /\ pc' = IF rest \div st < WORD THEN "high" ELSE "mid"
            /\ UNCHANGED << r, v, count >>

WriteMid == /\ pc = "mid"
            /\ LET st == Pow(r, Step(r))
                   w  == WriteStepDigits(rest % st, r, b, index)
               IN  /\ b' = w[1] /\ index' = w[2] /\ rest' = rest \div st
                   /\ pc' = IF w[2] # 0 THEN "high" ELSE "done"
            /\ UNCHANGED << r, v, count >>

WriteHigh == /\ pc = "high"
             /\ LET w == WriteDigits(rest, r, b, index) IN b' = w[1] /\ index' = w[2]
             /\ rest' = 0 /\ pc' = "done"
             /\ UNCHANGED << r, v, count >>

Next == Count \/ WriteLow \/ WriteMid \/ WriteHigh
Spec == Init /\ [][Next]_vars

RECURSIVE ValueOf(_, _, _, _)
ValueOf(buf, i, rr, acc) == IF i > Len(buf) THEN acc ELSE ValueOf(buf, i + 1, rr, acc * rr + buf[i])

InBounds   == ~b.oob                                                   \* C09: no byte outside buffer[..count]
FilledExactly == pc = "done" => index = 0 /\ \A i \in 1..count : b.buf[i] \in 0..(r - 1)
Canonical  == pc = "done" /\ index = 0 /\ ~b.oob => (count = 1 \/ b.buf[1] # 0)
Exact      == pc = "done" /\ index = 0 /\ ~b.oob /\ (\A i \in 1..count : b.buf[i] >= 0) => ValueOf(b.buf, 1, r, 0) = v
NothingLeft == pc = "done" => rest = 0
=============================================================================
