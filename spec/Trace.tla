-------------------------------- MODULE Trace -------------------------------
(***************************************************************************)
(* Trace validation: every recorded API call of the real crates must be a   *)
(* step the specification allows.                                           *)
(*                                                                         *)
(*   TRACE   (env) : ndjson, one event per public API call, grouped into    *)
(*                   episodes (field ep) about one subject                  *)
(*   FORMATS (env) : the format catalogue (setter sequences); the format    *)
(*                   records are derived here with Format!BuildFormat       *)
(*                                                                         *)
(* One action per operation kind; each either matches (the per-call         *)
(* contract of the oracle modules holds) or records a mismatch              *)
(* <<line, property, reason>> in `bad` and goes on, so a single run judges  *)
(* the whole shard.  When an episode closes its relational invariants       *)
(* (partial/complete, round trip, additivity, facade = core, lossy, ...)    *)
(* are evaluated on the recorded history `obs`.                             *)
(***************************************************************************)
EXTENDS IntParse, FloatParse, IntWrite, FloatWrite, Options, Json, IOUtils, TLC

Rec         == ndJsonDeserialize(IOEnv.TRACE)
FormatsJson == JsonDeserialize(IOEnv.FORMATS)
NRec        == Len(Rec)
FMT         == [i \in 1..Len(FormatsJson) |-> PackedView(BuildFormat(FormatsJson[i].calls))]
FmtOf(ev)   == FMT[ev.fmt + 1]

VARIABLES l, ep, obs, bad
vars == << l, ep, obs, bad >>

V(cond, prop, why) == IF cond THEN << >> ELSE << << prop, why >> >>

IsFloatTy(ty) == ty \in {"f32", "f64"}
FOf(ty) == IF ty = "f32" THEN F32 ELSE F64

DefaultPF == [lossy |-> FALSE, exp |-> CLowerE, point |-> CDot, nan |-> DefaultNan,
              inf |-> DefaultInf, infinity |-> DefaultInfinity]
PFOpts(ev) == IF ev.wo THEN ev.opts ELSE DefaultPF

Abnormal(r) == r.k \notin {"ok", "err"}

(* float value of an event as the Ieee record *)
FV(v) == [cls |-> v.cls, M |-> FromDec(v.m), e |-> v.e]

(***************************************************************************)
(* parse, float                                                            *)
(***************************************************************************)
ValueProp(ev, f) == IF PFOpts(ev).lossy THEN "C19"
                    ELSE IF HasSeparator(f) /\ ContainsByte(ev.in, f.digit_separator, 1) THEN "C13"   \* separators changed the value
                    ELSE IF Radix(f) = 10 /\ ExponentBase(f) = 10 THEN "C01" ELSE "C05"
GrammarProp(ev, sc) == IF sc.hassep \/ (HasSeparator(FmtOf(ev)) /\ ContainsByte(ev.in, FmtOf(ev).digit_separator, 1)) THEN "C13" ELSE "C12"

FloatValueWhy(ev, f, sc) ==
    LET r == ev.res
        F == FOf(ev.ty)
        x == FloatExact(sc, f)
        rv == FV(r.v)
    IN  IF r.v.cls = "nan" THEN "numeric input produced NaN"
        ELSE IF r.v.neg # sc.neg THEN "wrong sign"
        ELSE IF PFOpts(ev).lossy
             THEN IF WithinOneUlp(F, x, rv) THEN "" ELSE "lossy result more than one ulp from the correctly rounded value"
        ELSE IF CorrectlyRounded(F, x, rv) THEN "" ELSE "not the correctly rounded value"

Feat(ev) == [format |-> ev.feat.format, pow2 |-> ev.feat.pow2 \/ ev.feat.radix, radix |-> ev.feat.radix]

(* C18: with an invalid format or invalid punctuation the parser returns a configuration error *)
(* (an error without a position), not a value and not a panic                                 *)
ConfigValidity(ev, isFloat) ==
    LET f  == FmtOf(ev)
        fv == FormatValidity(f, Feat(ev))
        pv == IF isFloat THEN OptionsPunctuationValidity(f, PFOpts(ev).exp, PFOpts(ev).point) ELSE "valid"
    IN  IF fv = "invalid" \/ pv = "invalid" THEN "invalid"
        ELSE IF fv = "unspecified" \/ pv = "unspecified" THEN "unspecified" ELSE "valid"

ParseFloatContract(ev) ==
    LET f  == FmtOf(ev)
        o  == PFOpts(ev)
        s  == ev.in
        n  == ev.len
        r  == ev.res
        sc == ScanComplete("float", f, o, s, n)
        sp == SpecialOf(f, o, s, n)
        cv == ConfigValidity(ev, TRUE)
    IN  IF Abnormal(r) THEN << << "C10", "parse call did not return: " \o r.k >> >>
        ELSE IF r.k = "err" /\ r.idx > n THEN << << "C10", "error index beyond the input" >> >>
        ELSE IF r.k = "ok" /\ r.n > n THEN << << "C10", "consumed count beyond the input" >> >>
        ELSE IF cv = "invalid" THEN V(r.k = "err" /\ r.idx = -1, "C18", "invalid format or punctuation did not yield a configuration error")
        ELSE IF cv = "unspecified" \/ (ev.wo /\ ~ev.opts_valid) THEN << >>
        ELSE IF sc.v = "U" THEN << >>
        ELSE IF sc.v = "A" THEN
            IF r.k # "ok" THEN << << GrammarProp(ev, sc), "specification accepts, implementation rejects" >> >>
            ELSE IF r.n # n THEN << << "C11", "accepted input not consumed in full" >> >>
            ELSE LET w == FloatValueWhy(ev, f, sc) IN
                 V(w = "", ValueProp(ev, f), w)
                 \* "no numeric input ever yields NaN" and "the sign of zero and of infinity is preserved" are clauses of C15 too
                 \o (IF w = "numeric input produced NaN" \/ (w = "wrong sign" /\ r.v.cls \in {"zero", "inf"}) THEN << << "C15", w >> >> ELSE << >>)
        ELSE IF sp.k # "no" THEN
            \* a special string without a sign under required_mantissa_sign: the grammar of numbers demands the sign, the
            \* documentation of the special strings does not say - accepted or MissingSign, both pass
            \* likewise '+' in front of a special string under no_positive_mantissa_sign (the code applies the sign rules of
            \* the format to special strings too: MissingSign / InvalidPositiveSign)
            IF f.required_mantissa_sign /\ n >= 1 /\ s[1] \notin {CPlus, CMinus} THEN << >>
            ELSE IF f.no_positive_mantissa_sign /\ n >= 1 /\ s[1] = CPlus THEN << >>
            ELSE IF r.k # "ok" THEN << << "C15", "special string not accepted" >> >>
            ELSE IF r.n # n THEN << << "C15", "special string not consumed in full" >> >>
            ELSE IF r.v.cls # sp.k THEN << << "C15", "special string parsed to the wrong class" >> >>
            ELSE V(sp.k = "nan" \/ r.v.neg = sp.neg, "C15", "sign of infinity not preserved")
        ELSE IF ev.partial THEN << >>                   \* partial on a non-number: relation C11 only
        ELSE V(r.k = "err", IF r.k = "ok" /\ r.v.cls \in {"nan", "inf"} THEN "C15" ELSE GrammarProp(ev, sc),
               "specification rejects (" \o sc.why \o "), implementation accepts")

(* rule 7.3: Rust std's answer for the same bytes must satisfy the specification too *)
StdParseFloatDispute(ev) ==
    LET f  == FmtOf(ev)
        s  == ev.in
        n  == ev.len
        sc == ScanComplete("float", f, DefaultPF, s, n)
        sp == SpecialOf(f, DefaultPF, s, n)
        F  == FOf(ev.ty)
    IN  IF sc.v = "A"
        THEN V(ev.std.k = "ok" /\ ev.std.v.neg = sc.neg /\ CorrectlyRounded(F, FloatExact(sc, f), FV(ev.std.v)),
               "SPEC", "Rust std disagrees with the specification on an accepted input")
        ELSE IF sp.k # "no" THEN V(ev.std.k = "ok" /\ ev.std.v.cls = sp.k, "SPEC", "Rust std disagrees on a special string")
        ELSE V(ev.std.k = "err", "SPEC", "Rust std accepts an input the specification rejects")

(***************************************************************************)
(* parse, integer                                                          *)
(***************************************************************************)
PlainIntFormat(f) == f = FromRadix(Radix(f)) \/ f = NewFormat

(* integers under formats with syntax / separator flags (C12, C13): acceptance and value *)
IntGrammarContract(ev, f, T) ==
    LET s  == ev.in
        n  == ev.len
        r  == ev.res
        sc == ScanComplete(IF T.signed THEN "int" ELSE "uint", f, [exp |-> 0, point |-> 0], s, n)
        mag == FromDigits(sc.int, Radix(f))
    IN  IF ev.partial \/ sc.v = "U" THEN << >>
        ELSE IF sc.v = "R" THEN V(r.k = "err", IF sc.hassep THEN "C13" ELSE "C12",
                                  "specification rejects (" \o sc.why \o "), implementation accepts")
        ELSE IF ~Fits(T, sc.neg, mag) THEN V(r.k = "err", "C04", "out-of-range numeral accepted")
        ELSE IF r.k # "ok" THEN << << (IF sc.hassep THEN "C13" ELSE "C12"), "specification accepts, implementation rejects" >> >>
        ELSE V(FromDec(r.v.d) = mag /\ (r.v.neg = (sc.neg /\ mag # << >>)), IF sc.hassep THEN "C13" ELSE "C12", "accepted input has the wrong value")

ParseIntContract(ev) ==
    LET f  == FmtOf(ev)
        T  == IntTypes[ev.ty]
        s  == ev.in
        n  == ev.len
        r  == ev.res
    IN  IF Abnormal(r) THEN << << "C10", "parse call did not return: " \o r.k >> >>
        ELSE IF r.k = "err" /\ r.idx > n THEN << << "C10", "error index beyond the input" >> >>
        ELSE IF r.k = "ok" /\ r.n > n THEN << << "C10", "consumed count beyond the input" >> >>
        ELSE IF ConfigValidity(ev, FALSE) = "invalid"
             THEN V(r.k = "err" /\ r.idx = -1, "C18", "invalid format did not yield a configuration error")
        ELSE IF ConfigValidity(ev, FALSE) = "unspecified" THEN << >>
        ELSE IF ~PlainIntFormat(f) THEN IntGrammarContract(ev, f, T)
        ELSE LET sp == IntParseSpec(T, Radix(f), s, n, ev.partial) IN
             IF sp.k = "uns" THEN << >>
             ELSE IF sp.k = "ok" THEN
                 IF r.k # "ok" THEN << << "C04", "valid numeral in range rejected" >> >>
                 ELSE IF r.n # sp.n THEN << << "C04", "wrong consumed count" >> >>
                 ELSE IF FromDec(r.v.d) # sp.mag THEN << << "C04", "wrong value" >> >>
                 ELSE V(r.v.neg = (s[1] = CMinus /\ sp.mag # << >>), "C04", "wrong sign")
             ELSE IF r.k # "err" THEN << << "C04", "expected error " \o sp.code \o ", got a value" >> >>
             ELSE IF sp.code = "Empty" THEN V(r.code = "Empty", "C04", "expected Empty, got " \o r.code)
             ELSE IF sp.code = "EmptyOrInvalid" THEN
                 \* no digit at all, then a non-digit byte: "Empty ... when no digit follows the optional sign"
                 \* and "InvalidDigit at the first byte that is not a digit" both describe it
                 V(r.code = "Empty" \/ (r.code = "InvalidDigit" /\ r.idx = sp.idx), "C04",
                   "expected Empty or InvalidDigit at the first byte, got " \o r.code)
             ELSE V(r.code = sp.code /\ r.idx = sp.idx, "C04", "expected " \o sp.code \o " at another index, got " \o r.code)

StdParseIntDispute(ev) ==
    LET f  == FmtOf(ev)
        T  == IntTypes[ev.ty]
        sp == IntParseSpec(T, 10, ev.in, ev.len, FALSE)
    IN  IF sp.k = "ok"
        THEN V(ev.std.k = "ok" /\ FromDec(ev.std.v.d) = sp.mag, "SPEC", "Rust std disagrees with the integer specification")
        ELSE V(ev.std.k = "err", "SPEC", "Rust std accepts an integer string the specification rejects")

(***************************************************************************)
(* write, integer                                                          *)
(***************************************************************************)
(* the documented sufficient buffer size, as the code under test reports it *)
Need(ev) == IF ev.wo THEN ev.bound.bsc
            ELSE IF Radix(FmtOf(ev)) = 10 THEN ev.bound.fsd ELSE ev.bound.fs

WriteAbnormal(ev) ==
    LET r == ev.res IN
    IF r.k = "panic" THEN
        \* a panic is allowed only when the buffer is shorter than the documented bound
        IF ev.api = "core" /\ ev.buflen < Need(ev) THEN << >>
        ELSE << << "C09", "writer panicked although the buffer has the documented size: " \o r.msg >> >>
    ELSE IF r.k = "ok" THEN
        IF ~r.canary THEN << << "C09", "bytes outside the buffer were modified" >> >>
        ELSE IF ev.api = "core" /\ Len(r.out) > ev.buflen THEN << << "C09", "output longer than the buffer" >> >>
        ELSE IF Len(r.out) > Need(ev) THEN << << "C09", "output longer than the documented bound" >> >>
        ELSE << >>
    ELSE << << "C09", "write call did not return: " \o r.k >> >>

RECURSIVE AllAscii(_, _)
AllAscii(out, i) == IF i > Len(out) THEN TRUE ELSE IF out[i] < 128 THEN AllAscii(out, i + 1) ELSE FALSE

WriteIntContract(ev) ==
    LET f == FmtOf(ev)
        r == ev.res
        ab == WriteAbnormal(ev)
    IN  IF ab # << >> THEN
            \* no numeral at all (panic / fault / timeout although the buffer has the documented size) also breaks what C03
            \* says about every integer, as for the float writers
            ab \o (IF r.k # "ok" THEN << << "C03", "no output for an integer: " \o r.k >> >> ELSE << >>)
        ELSE IF r.k # "ok" THEN << >>
        ELSE LET w == IntWriteWhy(ev.v, Radix(f), f, r.out) IN
             V(w = "", "C03", w)
          \o V(r.at0, "C03", "returned slice does not start at the buffer start")
          \o V(AllAscii(r.out, 1), "C17", "non-ASCII byte written")
          \o (IF "std" \in DOMAIN ev /\ Radix(f) = 10 /\ ~f.required_mantissa_sign
              THEN V(r.out = ev.std, "C03", "decimal output differs from Rust's Display") ELSE << >>)

(***************************************************************************)
(* write, float: decimal, default options (C02)                            *)
(***************************************************************************)
DefaultWF == [max |-> 0, min |-> 0, pos |-> 9, neg |-> -5, round |-> "round", trim |-> FALSE,
              exp |-> CLowerE, point |-> CDot, nan |-> DefaultNan, inf |-> DefaultInf]
WFOpts(ev) == IF ev.wo THEN ev.opts ELSE DefaultWF
WFAsPF(o)  == [lossy |-> FALSE, exp |-> o.exp, point |-> o.point, nan |-> o.nan, inf |-> o.inf, infinity |-> o.inf]

IsDefaultDigits(o) == o.max = 0 /\ o.min = 0

(* Rust's {:e} output is shortest too: its digit string must satisfy the same predicates *)
StdWriteFloatDispute(ev, f) ==
    LET F  == FOf(ev.ty)
        v  == ev.v
        sc == ScanComplete("float", f, DefaultPF, ev.std, Len(ev.std))
        sd == SigDigits(sc, f)
        M  == FromDec(v.m)
    IN  IF v.cls # "finite" THEN << >>
        ELSE V(sc.v = "A" /\ sd.n > 0 /\ RoundTrips(F, FromDec(sd.d), sd.k, M, v.e)
                 /\ IsShortest(F, sd.d, sd.n, sd.k, M, v.e) /\ IsClosest(F, sd.d, sd.n, sd.k, M, v.e),
               "SPEC", "Rust std's shortest output does not satisfy the specification's predicates")

IsPow2Radix(r) == r \in {2, 4, 8, 16, 32}

(* the value M * 2^e is an integer below 2^p: it then equals mo * 2^eo with mo odd and eo >= 0 *)
(* (mo, eo: the worker's odd-mantissa decomposition, cross-checked here against (m, e))        *)
OddFormConsistent(v) == Mul(FromDec(v.mo), Pow2(v.eo - v.e)) = FromDec(v.m)
IsSmallInteger(F, v) == v.eo >= 0 /\ v.e <= 0

WriteFloatFiniteWhy(ev, f, o, sc) ==
    LET r    == ev.res
        F    == FOf(ev.ty)
        v    == ev.v
        M    == FromDec(v.m)
        lay  == Layout(sc, f)
        rdx  == Radix(f)
        maxd == IF ev.ty = "f32" THEN 9 ELSE 17
        k    == lay.se - lay.n + 1
    IN  IF lay.n = 0 /\ (rdx = 10 \/ IsPow2Radix(rdx))
        THEN << << (IF rdx = 10 THEN "C02" ELSE "C06"), "non-zero value written as zero" >> >>
        ELSE IF ~IsDefaultDigits(o) THEN << >>                       \* digits judged by the C14 relation
        ELSE IF rdx = 10 /\ ExponentBase(f) = 10 THEN
            IF ~RoundTrips(F, FromDec(lay.d), k, M, v.e) THEN << << "C02", "output does not round-trip to the value" >> >>
            ELSE IF ev.feat.compact THEN V(lay.n <= maxd, "C02", "more than 17 / 9 significant digits")
            ELSE IF ~IsShortest(F, lay.d, lay.n, k, M, v.e) THEN << << "C02", "a shorter digit string round-trips" >> >>
            ELSE V(IsClosest(F, lay.d, lay.n, k, M, v.e), "C02", "another digit string of the same length is closer")
        ELSE IF IsPow2Radix(rdx) THEN
            V(ExactlyEqual(FloatExact(sc, f), M, v.e), "C06", "output does not denote exactly the float's value")
        ELSE
            LET x == FloatExact(sc, f) IN
            IF ~OddFormConsistent(v) THEN << << "SPEC", "worker decomposition inconsistent" >> >>
            ELSE IF IsSmallInteger(F, v) THEN V(ExactlyEqual(x, M, v.e), "C07", "integer below 2^p not written exactly")
            ELSE V(WithinUlps(x, M, v.e, IF ev.ty = "f32" THEN 256 ELSE 2048), "C07", "output farther from the float than the documented bound")

(* notation, digit counts, punctuation: judged on the output itself (FloatWrite!LayoutClauses) *)
WriteFloatLayoutWhy(ev, f, o, sc) == LayoutClauses(f, o, sc, ev.res.out)

(* C09, beyond the floats that happen to be written: the bound the code reports for these options (ev.bound.bsc)  *)
(* must cover the longest output ANY float of the type produces under them -- Bounds!LongestOutput, the maximum   *)
(* of the documented layout over every scientific exponent and digit count of the type (decimal formats only).   *)
BND == INSTANCE Bounds
BoundCoversLongest(ev, f, o) ==
    IF ~(ev.wo /\ ev.ty \in {"f32", "f64"} /\ Radix(f) = 10 /\ ExponentBase(f) = 10 /\ "bound" \in DOMAIN ev) THEN << >>
    ELSE LET L == BND!LongestOutput(ev.ty, [min |-> o.min, max |-> o.max, neg |-> o.neg, pos |-> o.pos, trim |-> o.trim],
                                    [noexp |-> f.no_exponent_notation, reqexp |-> f.required_exponent_notation,
                                     reqsign |-> f.required_exponent_sign])
             sp == 1 + (IF Len(o.nan) > Len(o.inf) THEN Len(o.nan) ELSE Len(o.inf))
             fl == [noexp |-> f.no_exponent_notation, reqexp |-> f.required_exponent_notation, reqsign |-> f.required_exponent_sign]
             db == BND!DocBound([min |-> o.min, max |-> o.max, neg |-> o.neg, pos |-> o.pos, trim |-> o.trim], fl,
                                ev.feat.pow2 \/ ev.feat.radix, ev.bound.fsd, "ok")
         IN  V(ev.bound.bsc >= L.len, "C09", "the documented buffer bound is smaller than the longest output these options allow")
          \o V(ev.bound.bsc >= sp, "C09", "the documented buffer bound is smaller than a special-value string")
          \* not a property: tells the reader that MC_Bounds / AP_Bounds (which reason about DocBound) no longer describe this code
          \o V(ev.bound.bsc = db, "MODEL", "buffer_size_const differs from the formula modelled as Bounds!DocBound")

WriteFloatContract(ev) ==
    LET f  == FmtOf(ev)
        o  == WFOpts(ev)
        r  == ev.res
        v  == ev.v
        specialOff == (v.cls = "nan" /\ o.nan = << >>) \/ (v.cls = "inf" /\ o.inf = << >>)
    IN  IF ~ev.opts_valid \/ OptionsPunctuationValidity(f, o.exp, o.point) # "valid"
        THEN \* options the builder rejects, or punctuation that is a digit / sign / separator of this format: only "no fault"
             (IF r.k \in {"ok", "panic"} THEN << >> ELSE << << "C09", "write call did not return: " \o r.k >> >>)
             \* C17's global clause speaks of the options the CODE accepts: whatever it writes under options it calls valid is ASCII
             \o (IF ev.opts_valid /\ r.k = "ok" THEN V(AllAscii(r.out, 1), "C17", "non-ASCII byte written") ELSE << >>)
        ELSE IF specialOff THEN V(r.k = "panic", "C15", "special value written although its string is disabled")
        ELSE LET ab == WriteAbnormal(ev)
                 bc == BoundCoversLongest(ev, f, o) IN
        IF ab # << >> THEN
            \* no output at all also breaks what the property of this writer says about "every finite float"
            ab \o bc \o (IF v.cls \in {"finite", "zero"}
                   THEN << << (IF IsPow2Radix(Radix(f)) \/ Radix(f) = 10
                                 THEN (IF IsDefaultDigits(o) THEN (IF Radix(f) = 10 THEN "C02" ELSE "C06") ELSE "C14")
                                 ELSE "C07"),
                              "no output for a finite float: " \o r.k >> >>
                   ELSE << >>)
        ELSE IF r.k # "ok" THEN bc
        ELSE bc \o V(AllAscii(r.out, 1), "C17", "non-ASCII byte written")
          \* under required_mantissa_sign the reader of the same format demands a sign on every input, specials included:
          \* whether "+NaN" / "+inf" or the bare strings are written there is not documented - both are accepted
          \o (IF v.cls = "nan" THEN V(r.out = o.nan \/ (f.required_mantissa_sign /\ r.out = << CPlus >> \o o.nan), "C15",
                                     "NaN not written as the configured string (or written with a sign)")
              ELSE IF v.cls = "inf" THEN V(r.out = (IF v.neg THEN << CMinus >> ELSE << >>) \o o.inf
                                             \/ (f.required_mantissa_sign /\ ~v.neg /\ r.out = << CPlus >> \o o.inf),
                                           "C15", "infinity not written as [-]inf string")
              ELSE LET sc == ScanComplete("float", f, WFAsPF(o), r.out, Len(r.out)) IN
                   IF sc.v = "U" THEN << >>
                   ELSE IF sc.v # "A" THEN
                        \* not a numeral of the format: what lexical wrote cannot be read back (C08), and it does not denote the
                        \* float either, which is what the writer's own property demands (C02 / C06 / C07)
                        LET own == IF Radix(f) = 10 /\ ExponentBase(f) = 10
                                   THEN (IF IsDefaultDigits(o) /\ o.point = DefaultWF.point /\ o.exp = DefaultWF.exp /\ ~o.trim
                                         THEN "C02" ELSE "C14")       \* digit / notation / punctuation options: C14's subject
                                   ELSE IF IsPow2Radix(Radix(f)) THEN "C06" ELSE "C07" IN
                        << << own, "output is not a number of the format: " \o sc.why >> >>
                        \o (IF own # "C07" THEN << << "C08", "output is not a number of the format: " \o sc.why >> >> ELSE << >>)
                   ELSE IF sc.neg # v.neg THEN << << "C15", "sign of the output differs from the sign of the value" >> >>
                   ELSE IF v.cls = "zero" THEN V(Layout(sc, f).n = 0, "C15", "zero written with non-zero digits")
                   ELSE WriteFloatFiniteWhy(ev, f, o, sc) \o WriteFloatLayoutWhy(ev, f, o, sc))

(***************************************************************************)
(* builder, catalogue formats, option builders (C18)                       *)
(***************************************************************************)
FeatOf(ev) == [format |-> ev.feat.format, pow2 |-> ev.feat.pow2 \/ ev.feat.radix, radix |-> ev.feat.radix]

(* the record a getter view must show: JSON booleans / numbers, same field names *)
SameView(get, f) == \A k \in DOMAIN f : get[k] = f[k]

BuilderContract(ev) ==
    LET r == ev.res IN
    IF r.k # "ok" THEN << >>                            \* a setter that does not exist under these features
    ELSE LET f  == BuildFormat(ev.calls)
             fv == FormatValidity(f, FeatOf(ev))
         IN    V(SameView(r.get, f), "C18", "a getter does not reflect the last value set")
            \o V(SameView(r.rebuild_get, RebuildView(f)), "C18", "rebuild(build_unchecked()) is not (semantically) the same format")
            \o (IF fv = "unspecified" THEN << >>
                ELSE   V(fv = "valid" => (r.strict.k = "ok" /\ r.strict.same), "C18", "build_strict panics for a valid format")
                    \o V(fv = "invalid" => r.strict.k = "panic", "C18", "build_strict accepts an invalid format"))

FmtInfoContract(ev) ==
    LET r  == ev.res
        f  == FmtOf(ev)
        fv == FormatValidity(f, FeatOf(ev))
    IN  IF "k" \in DOMAIN r THEN << >>                 \* format not compiled under these features
        ELSE   V(SameView(r.get, RebuildView(f)), "C18", "NumberFormat getters differ from the builder's values")
            \o (IF fv = "unspecified" THEN << >>
                ELSE V(r.valid = (fv = "valid") /\ (r.valid = (r.error = "Success")), "C18",
                       IF r.valid THEN "format_is_valid accepts an invalid format" ELSE "format_is_valid rejects a valid format"))

OptionsContract(ev) ==
    LET r == ev.res
        o == ev.opts
        v == IF ev.kind = "parse_float" THEN ParseFloatOptionsValidity(o) ELSE WriteFloatOptionsValidity(o)
    IN  IF r.k # "ok" THEN << >>
        ELSE   V(r.valid = (r.build = "ok") /\ r.valid = r.strict, "C18", "is_valid, build and build_strict disagree")
            \o V(r.rebuild_same, "C18", "options do not round-trip through rebuild")
            \o V(\A k \in DOMAIN r.get : r.get[k] = o[k], "C18", "an options getter does not reflect the value set")
            \o (IF v = "valid" THEN V(r.valid, "C18", "valid options reported invalid")
                ELSE IF v = "invalid" THEN V(~r.valid, "C18", "invalid options reported valid")
                ELSE << >>)

(***************************************************************************)
(* per-event contract                                                      *)
(***************************************************************************)
Contract(ev) ==
    CASE ev.op = "parse" /\ IsFloatTy(ev.ty) ->
             LET c == ParseFloatContract(ev) IN
             IF "std" \notin DOMAIN ev \/ ev.partial THEN c
             ELSE IF ev.std.k = "ok" /\ ev.res.k = "ok" /\ ev.std.v.bits = ev.res.v.bits /\ ~PFOpts(ev).lossy
                  THEN \* std returned the very same float: its verdict is the verdict on lexical's result
                       (IF c = << >> THEN c ELSE c \o << << "SPEC", "Rust std returns the same value the specification rejects" >> >>)
                  ELSE c \o StdParseFloatDispute(ev)
      [] ev.op = "parse" ->
             ParseIntContract(ev)
             \o (IF "std" \in DOMAIN ev /\ ~ev.partial THEN StdParseIntDispute(ev) ELSE << >>)
      [] ev.op = "write" /\ IsFloatTy(ev.ty) ->
             WriteFloatContract(ev)
             \o (IF "std" \in DOMAIN ev THEN StdWriteFloatDispute(ev, FmtOf(ev)) ELSE << >>)
      [] ev.op = "write" -> WriteIntContract(ev)
      [] ev.op = "builder" -> BuilderContract(ev)
      [] ev.op = "fmtinfo" -> FmtInfoContract(ev)
      [] ev.op = "options" -> OptionsContract(ev)
      [] OTHER -> << >>

(***************************************************************************)
(* episode relations                                                       *)
(***************************************************************************)
SameVal(a, b) == IF "bits" \in DOMAIN a THEN (a.cls = "nan" /\ b.cls = "nan") \/ a.bits = b.bits
                 ELSE a.neg = b.neg /\ a.d = b.d

SameRes(a, b) ==
    /\ a.k = b.k
    /\ (a.k = "ok" /\ "v" \in DOMAIN a => SameVal(a.v, b.v) /\ a.n = b.n)
    /\ (a.k = "ok" /\ "out" \in DOMAIN a => a.out = b.out)
    /\ (a.k = "err" => a.code = b.code /\ a.idx = b.idx)

SameArgs(a, b) ==
    /\ a.op = b.op /\ a.ty = b.ty /\ a.fmt = b.fmt /\ a.wo = b.wo /\ a.opts = b.opts
    /\ (a.op = "parse" => a.in = b.in)
    /\ (a.op = "write" => a.val = b.val)
(* the same call with a sufficient buffer: a writer's result does not depend on the buffer once it has the documented *)
(* size (the default buffer of the harness differs between feature sets, FORMATTED_SIZE does); the facade allocates    *)
(* its own buffer and its events carry no buflen                                                                      *)
Sufficient(a) == a.op = "write" => ("buflen" \in DOMAIN a => a.buflen >= Need(a))
SameCall(a, b) == SameArgs(a, b) /\ Sufficient(a) /\ Sufficient(b)

(* Each relation is written from the point of view of one event b = o[i] (the partial call, the  *)
(* facade call, the parse-back, the lossy call, the call in the other configuration) against     *)
(* every other event a = o[j] of the episode, so that a mismatch is reported on that event.      *)
Others(o, i) == { j \in 1..Len(o) : j # i }

(* C11 *)
PartialAgreesAt(o, i) ==
    LET b == o[i] IN
    (b.op = "parse" /\ b.partial /\ ~Abnormal(b.res)) =>
    \A j \in Others(o, i) :
        LET a == o[j] IN
        (a.op = "parse" /\ ~a.partial /\ a.cfg = b.cfg /\ a.api = b.api
           /\ a.ty = b.ty /\ a.fmt = b.fmt /\ a.wo = b.wo /\ a.opts = b.opts /\ ~Abnormal(a.res))
        => /\ (a.in = b.in =>
                 /\ (a.res.k = "ok" => b.res.k = "ok" /\ b.res.n = b.len /\ SameVal(a.res.v, b.res.v))
                 /\ (b.res.k = "ok" /\ b.res.n = b.len => a.res.k = "ok"))
           /\ (b.res.k = "ok" /\ b.res.n > 0 /\ a.len = b.res.n /\ a.len < b.len /\ a.in = SubSeq(b.in, 1, b.res.n)
                 => a.res.k = "ok" /\ SameVal(a.res.v, b.res.v))

(* C16: same call, different build configuration *)
AdditiveAt(o, i) ==
    LET b == o[i] IN
    (b.op \in {"parse", "write"}) =>
    \A j \in Others(o, i) :
        LET a == o[j] IN
        (j < i /\ a.op \in {"parse", "write"} /\ a.cfg # b.cfg /\ a.api = b.api /\ SameCall(a, b) /\ a.fmt = 0 /\ (a.op = "parse" => a.partial = b.partial)
           /\ ~(a.op = "parse" /\ IsFloatTy(a.ty) /\ a.wo /\ a.opts.lossy))      \* lossy results may differ (C19 bounds them)
        => IF a.op = "write" /\ IsFloatTy(a.ty) /\ (a.feat.compact \/ b.feat.compact)
           THEN a.res.k = b.res.k
           ELSE SameRes(a.res, b.res)

(* C17: same call through lexical and lexical-core *)
FacadeEqualsCoreAt(o, i) ==
    LET b == o[i] IN
    (b.op \in {"parse", "write"} /\ b.api = "facade") =>
    \A j \in Others(o, i) :
        LET a == o[j] IN
        (a.op \in {"parse", "write"} /\ a.cfg = b.cfg /\ a.api = "core" /\ SameArgs(a, b)
           /\ (a.op = "parse" => a.partial = b.partial)
           /\ (a.op = "write" => a.buflen >= Need(a)))
        => SameRes(a.res, b.res)

(* C08 (and the compact clause of C16): what was written parses back, and to the same value    *)
(* for integers, signed zeros, infinities, and decimal / power-of-two floats without digit      *)
(* truncation; NaN reads back as NaN; elsewhere only acceptance is required                     *)
ExactBack(w) ==
    IF ~IsFloatTy(w.ty) THEN TRUE
    ELSE IF w.v.cls # "finite" THEN TRUE
    ELSE LET f == FmtOf(w) IN (Radix(f) = 10 \/ IsPow2Radix(Radix(f))) /\ WFOpts(w).max = 0

RoundTripAt(o, i) ==
    LET q == o[i] IN
    (q.op = "parse" /\ "back" \in DOMAIN q /\ ~q.partial) =>
    \A j \in Others(o, i) :
        LET w == o[j] IN
        (w.op = "write" /\ w.res.k = "ok" /\ q.ty = w.ty /\ q.in = w.res.out /\ q.back = w.id
           \* special values are only required to read back "when the format permits special values"
           /\ ~(IsFloatTy(w.ty) /\ w.v.cls \in {"nan", "inf"} /\ FmtOf(w).no_special))
        => /\ q.res.k = "ok"
           /\ (ExactBack(w) => SameVal(q.res.v, w.v))

(* C16: "compact output parses to the same value": a parse-back recorded in ANOTHER build configuration than the write *)
CrossBuildBackAt(o, i) ==
    LET q == o[i] IN
    (q.op = "parse" /\ "back" \in DOMAIN q /\ ~q.partial) =>
    \A j \in Others(o, i) :
        LET w == o[j] IN
        (w.op = "write" /\ w.res.k = "ok" /\ q.ty = w.ty /\ q.in = w.res.out /\ q.back = w.id /\ q.cfg # w.cfg /\ w.fmt = 0)
        => q.res.k = "ok" /\ SameVal(q.res.v, w.v)

(* C14: digits under max/min_significant_digits follow from the default output of the same float *)
WFScan(ev) == ScanComplete("float", FmtOf(ev), WFAsPF(WFOpts(ev)), ev.res.out, Len(ev.res.out))

DigitsFollow(a, b) ==
    LET f  == FmtOf(b)
        sa == WFScan(a)
        sb == WFScan(b)
        la == Layout(sa, f)
        lb == Layout(sb, f)
        m  == b.opts.max
        ex == IF m > 0 /\ m < la.n THEN RoundDigits(la.d, la.n, m, Radix(f), b.opts.round)
              ELSE [d |-> la.d, carried |-> FALSE]
    IN  (sa.v = "A" /\ sb.v = "A" /\ la.n > 0) =>
           /\ lb.d = StripTrailing(ex.d)
           /\ (Radix(f) = ExponentBase(f) => lb.se = la.se + (IF ex.carried THEN 1 ELSE 0))

OptionsRelationAt(o, i) ==
    LET b == o[i] IN
    (b.op = "write" /\ IsFloatTy(b.ty) /\ b.wo /\ b.opts_valid /\ b.res.k = "ok" /\ b.v.cls = "finite"
       /\ (b.opts.max > 0 \/ b.opts.min > 0)) =>
    \A j \in Others(o, i) :
        LET a == o[j] IN
        (a.op = "write" /\ a.ty = b.ty /\ a.fmt = b.fmt /\ a.cfg = b.cfg /\ a.api = b.api /\ a.val = b.val
           /\ a.wo /\ a.res.k = "ok" /\ a.opts = [b.opts EXCEPT !.max = 0, !.min = 0, !.trim = FALSE])
        => DigitsFollow(a, b)

(* C14: trim_floats removes exactly the point and the zero fraction of integral outputs *)
RemoveRange(s, lo, hi) == SubSeq(s, 1, lo - 1) \o SubSeq(s, hi + 1, Len(s))
TrimFollows(c, b) ==
    LET sc == WFScan(c)
        pp == SegLo(sc.segs, "point", 1)
        fh == SegHi(sc.segs, "frac", Len(sc.segs))
        integral == sc.hasPoint /\ AllZero(sc.frac, 1, Len(sc.frac))
    IN  sc.v = "A" =>
          \/ b.res.out = (IF integral THEN RemoveRange(c.res.out, pp, IF fh = 0 THEN pp ELSE fh) ELSE c.res.out)
          \* a format that forbids an exponent without a fraction cannot have "1.0e-7" trimmed to "1e-7"
          \/ (FmtOf(c).no_exponent_without_fraction /\ sc.hasExp /\ b.res.out = c.res.out)

TrimRelationAt(o, i) ==
    LET b == o[i] IN
    (b.op = "write" /\ IsFloatTy(b.ty) /\ b.wo /\ b.opts_valid /\ b.res.k = "ok" /\ b.v.cls \in {"finite", "zero"} /\ b.opts.trim) =>
    \A j \in Others(o, i) :
        LET c == o[j] IN
        (c.op = "write" /\ c.ty = b.ty /\ c.fmt = b.fmt /\ c.cfg = b.cfg /\ c.api = b.api /\ c.val = b.val
           /\ c.wo /\ c.res.k = "ok" /\ c.opts = [b.opts EXCEPT !.trim = FALSE])
        => TrimFollows(c, b)

(* inputs certainly decided by the exact fast path: decimal, significand <= 2^p, not truncated, *)
(* |exponent| no larger than the largest exactly representable power of ten                    *)
ConservativeFastPath(ev) ==
    LET f   == FmtOf(ev)
        F   == FOf(ev.ty)
        sc  == ScanComplete("float", f, PFOpts(ev), ev.in, ev.len)
        x   == FloatExact(sc, f)
        lim == IF ev.ty = "f32" THEN 10 ELSE 22
    IN  /\ Radix(f) = 10 /\ ExponentBase(f) = 10
        /\ sc.v = "A"
        /\ ~x.sticky /\ Cmp(x.D, Pow2(F.p)) <= 0
        /\ x.q >= 0 - lim /\ x.q <= lim

(* Zero and infinity results "are unchanged".  Right at the overflow / underflow threshold the   *)
(* neighbour clause of C19 (a finite result may be a neighbour of the correctly rounded value)   *)
(* and this clause pull in different directions (max finite is a neighbour of infinity), so the  *)
(* clause is judged only where the exact value is clearly outside: exactly zero, at least twice  *)
(* the overflow threshold, or at most a quarter of the smallest subnormal.                       *)
ClearlyOutside(ev) ==
    LET f  == FmtOf(ev)
        F  == FOf(ev.ty)
        sc == ScanComplete("float", f, PFOpts(ev), ev.in, ev.len)
        x  == FloatExact(sc, f)
    IN  sc.v = "A" /\ (XIsZero(x) \/ CmpX(x, One, F.emax + F.p + 1) >= 0 \/ CmpX(x, One, F.emin - 2) <= 0)

(* C19: lossy changes nothing but the value *)
LossyAgreesAt(o, i) ==
    LET b == o[i] IN
    (b.op = "parse" /\ IsFloatTy(b.ty) /\ b.wo /\ b.opts.lossy /\ ~Abnormal(b.res)) =>
    \A j \in Others(o, i) :
        LET a == o[j] IN
        (a.op = "parse" /\ a.ty = b.ty /\ a.fmt = b.fmt /\ a.cfg = b.cfg
           /\ a.api = b.api /\ a.partial = b.partial /\ a.in = b.in /\ a.wo
           /\ ~a.opts.lossy /\ [a.opts EXCEPT !.lossy = TRUE] = b.opts /\ ~Abnormal(a.res))
        => /\ a.res.k = b.res.k
           /\ (a.res.k = "ok" => a.res.n = b.res.n)
           /\ (a.res.k = "err" => a.res.code = b.res.code /\ a.res.idx = b.res.idx)
           /\ (a.res.k = "ok" /\ a.res.v.cls = "nan" => b.res.v.cls = "nan")
           /\ (a.res.k = "ok" /\ a.res.v.cls \in {"zero", "inf"} /\ ClearlyOutside(b) => SameVal(a.res.v, b.res.v))
           /\ (a.res.k = "ok" /\ ConservativeFastPath(b) => SameVal(a.res.v, b.res.v))

(* C13: an input without a separator byte is treated identically by a format and by its separator-free counterpart *)
SepFreeSameAt(o, i) ==
    LET b == o[i] IN
    (b.op = "parse" /\ HasSeparator(FmtOf(b)) /\ ~ContainsByte(b.in, FmtOf(b).digit_separator, 1) /\ ~Abnormal(b.res)
       /\ ConfigValidity(b, IsFloatTy(b.ty)) = "valid"
       \* what a partial integer parse returns when there is no digit at all is unspecified (IntParse: "uns")
       /\ ~(b.partial /\ ~IsFloatTy(b.ty) /\ IntParseSpec(IntTypes[b.ty], Radix(FmtOf(b)), b.in, b.len, TRUE).k = "uns")) =>
    \A j \in Others(o, i) :
        LET a == o[j] IN
        (a.op = "parse" /\ a.ty = b.ty /\ a.cfg = b.cfg /\ a.api = b.api /\ a.partial = b.partial /\ a.in = b.in
           /\ a.wo = b.wo /\ a.opts = b.opts /\ a.fmt # b.fmt /\ FmtOf(a) = NoSep(FmtOf(b)) /\ ~Abnormal(a.res))
        => SameRes(a.res, b.res)

(* C13: an input accepted with value v is accepted with the same value after deleting all separator bytes *)
SepDeletionAt(o, i) ==
    LET b == o[i] IN
    (b.op = "parse" /\ ~b.partial /\ HasSeparator(FmtOf(b)) /\ ContainsByte(b.in, FmtOf(b).digit_separator, 1)
       /\ b.res.k = "ok" /\ ConfigValidity(b, IsFloatTy(b.ty)) = "valid") =>
    \A j \in Others(o, i) :
        LET a == o[j] IN
        (a.op = "parse" /\ ~a.partial /\ a.ty = b.ty /\ a.cfg = b.cfg /\ a.api = b.api /\ a.fmt = b.fmt
           /\ a.wo = b.wo /\ a.opts = b.opts /\ a.in = StripSep(b.in, FmtOf(b).digit_separator, 1, << >>))
        => a.res.k = "ok" /\ SameVal(a.res.v, b.res.v)

RelationsAt(o, i) ==
       V(PartialAgreesAt(o, i),      "C11", "partial and complete parsers disagree")
    \o V(AdditiveAt(o, i),           "C16", "results differ between build configurations")
    \o V(FacadeEqualsCoreAt(o, i),   "C17", "lexical and lexical-core disagree")
    \o V(RoundTripAt(o, i),          "C08", "written bytes do not parse back to the same value")
    \o V(CrossBuildBackAt(o, i),     "C16", "output of one build does not parse back to the same value in another build")
    \o V(LossyAgreesAt(o, i),        "C19", "lossy parsing changed more than the precision")
    \o V(SepFreeSameAt(o, i),        "C13", "separator-free input treated differently by the format and its separator-free counterpart")
    \o V(SepDeletionAt(o, i),        "C13", "deleting the separators changes acceptance or the value")
    \o V(OptionsRelationAt(o, i),    "C14", "digits are not the default digits rounded to max_significant_digits")
    \o V(TrimRelationAt(o, i),       "C14", "trim_floats did not remove exactly the '.0' of an integral output")

(***************************************************************************)
(* the walk                                                                *)
(***************************************************************************)
RECURSIVE TagAll(_, _, _)
TagAll(line, seq, i) == IF i > Len(seq) THEN << >>
                        ELSE << << line, seq[i][1], seq[i][2] >> >> \o TagAll(line, seq, i + 1)

Init == l = 1 /\ ep = -1 /\ obs = << >> /\ bad = << >>

(* `line` is the trace line of the last event of the episode held in obs *)
RECURSIVE CloseFrom(_, _, _)
CloseFrom(o, line, i) ==
    IF i > Len(o) THEN << >>
    ELSE TagAll(line - Len(o) + i, RelationsAt(o, i), 1) \o CloseFrom(o, line, i + 1)
CloseEpisode(line) == IF ep = -1 \/ Len(obs) < 2 THEN << >> ELSE CloseFrom(obs, line, 1)

TierOf(ev) == IF "tier" \in DOMAIN ev THEN ev.tier ELSE "unknown"

(* one action per operation kind, so that -coverage shows what the trace exercised *)
StepOf(kind) ==
    /\ l <= NRec
    /\ LET ev == Rec[l] IN
       /\ (IF ev.op = "parse" THEN (IF IsFloatTy(ev.ty) THEN "parse_float_" \o TierOf(ev) ELSE "parse_int")
           ELSE IF ev.op = "write" THEN (IF IsFloatTy(ev.ty) THEN "write_float_" \o TierOf(ev) ELSE "write_int")
           ELSE IF ev.op \in {"builder", "fmtinfo", "options"} THEN "config"
           ELSE "other") = kind
       /\ LET newEp  == ev.ep # ep
              closed == IF newEp THEN CloseEpisode(l - 1) ELSE << >>
              mism   == TagAll(l, Contract(ev), 1)
          IN  /\ bad' = bad \o closed \o mism
              /\ ep' = ev.ep
              /\ obs' = IF newEp THEN << ev >> ELSE Append(obs, ev)
    /\ l' = l + 1

(* The float actions are split by the tier the implementation reports through its verification hooks  *)
(* (lexical_util::verif, --cfg lexical_verif): the guard names the stage, the postcondition is the same *)
(* API-level contract -- routes are not judged, they make the trace specification shaped like the code  *)
(* and let -coverage / the evidence show which stages the traces exercised.                             *)
ParseFloatFast     == StepOf("parse_float_fast")
ParseFloatModerate == StepOf("parse_float_moderate")
ParseFloatSlow     == StepOf("parse_float_slow")
ParseFloatSpecial  == StepOf("parse_float_special")
ParseFloatOther    == StepOf("parse_float_none") \/ StepOf("parse_float_unknown")
ParseFloat == ParseFloatFast \/ ParseFloatModerate \/ ParseFloatSlow \/ ParseFloatSpecial \/ ParseFloatOther
ParseInt   == StepOf("parse_int")
WriteFloatDragonbox == StepOf("write_float_dragonbox_normal") \/ StepOf("write_float_dragonbox_shorter")
WriteFloatGrisu     == StepOf("write_float_grisu")
WriteFloatBinary    == StepOf("write_float_binary")
WriteFloatRadix     == StepOf("write_float_radix")
WriteFloatOther     == StepOf("write_float_none") \/ StepOf("write_float_unknown")
WriteFloat == WriteFloatDragonbox \/ WriteFloatGrisu \/ WriteFloatBinary \/ WriteFloatRadix \/ WriteFloatOther
WriteInt   == StepOf("write_int")
Config     == StepOf("config")
Other      == StepOf("other")

Finish == /\ l = NRec + 1
          /\ bad' = bad \o CloseEpisode(NRec)
          /\ l' = l + 1 /\ ep' = -1 /\ obs' = << >>

Next == ParseFloat \/ ParseInt \/ WriteFloat \/ WriteInt \/ Config \/ Other \/ Finish
Spec == Init /\ [][Next]_vars

Report   == (l = NRec + 2) => PrintT(<< "BAD", ToJson(bad) >>)
Accepted == TLCGet("stats").diameter = NRec + 2
=============================================================================
