CONSTANT Variant = "ok"
CONSTANT Deep = FALSE
CONSTANT Exhaustive = FALSE
SPECIFICATION Spec
INVARIANT Sufficient
INVARIANT NotWasteful
CHECK_DEADLOCK FALSE
