------------------------------- MODULE Options ------------------------------
(***************************************************************************)
(* Run-time options and their documented validity (C18).  An optional       *)
(* string is a record [some, s]; digits / breaks use 0 for None.            *)
(***************************************************************************)
EXTENDS Format

MaxSpecialLen == 50

RECURSIVE AllLetters(_, _)
AllLetters(s, i) == IF i > Len(s) THEN TRUE ELSE IF IsLetter(s[i]) THEN AllLetters(s, i + 1) ELSE FALSE

SpecialStringOk(str, first) ==
    ~str.some \/ ( /\ Len(str.s) >= 1 /\ Len(str.s) <= MaxSpecialLen
                  /\ ToLower(str.s[1]) = first /\ AllLetters(str.s, 1) )

(* "valid" | "invalid" | "unspecified" (control characters as punctuation, see Format) *)
ParseFloatOptionsValidity(o) ==
    IF CtlGap(o.exp) \/ CtlGap(o.point) THEN "unspecified"
    ELSE IF /\ IsPrintAscii(o.exp) /\ IsPrintAscii(o.point)
            /\ SpecialStringOk(o.nan, 110)
            /\ SpecialStringOk(o.inf, 105) /\ SpecialStringOk(o.infinity, 105)
            /\ (o.inf.some => o.infinity.some)
            /\ (o.inf.some /\ o.infinity.some => Len(o.inf.s) <= Len(o.infinity.s))
         THEN "valid" ELSE "invalid"

WriteFloatOptionsValidity(o) ==
    IF CtlGap(o.exp) \/ CtlGap(o.point) THEN "unspecified"
    ELSE IF /\ IsPrintAscii(o.exp) /\ IsPrintAscii(o.point)
            /\ SpecialStringOk(o.nan, 110) /\ SpecialStringOk(o.inf, 105)
            /\ ~(o.max > 0 /\ o.min > 0 /\ o.max < o.min)        \* "will panic when building the options ..."
            /\ o.pos >= 0 /\ o.neg <= 0
         THEN "valid" ELSE "invalid"
=============================================================================
