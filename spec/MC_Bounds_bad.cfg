CONSTANT Variant = "exp_room_minus_1"
CONSTANT Deep = FALSE
CONSTANT Exhaustive = FALSE
SPECIFICATION Spec
INVARIANT Sufficient
CHECK_DEADLOCK FALSE
