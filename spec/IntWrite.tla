------------------------------ MODULE IntWrite ------------------------------
(* Integer -> string (C03): the canonical positional numeral.               *)
EXTENDS Format, BigNat

RECURSIVE AllCanonDigits(_, _, _, _)
AllCanonDigits(out, i, n, radix) ==
    IF i > n THEN TRUE
    ELSE IF (IsDecDigit(out[i]) \/ IsUpper(out[i])) /\ RawDigit(out[i]) < radix
         THEN AllCanonDigits(out, i + 1, n, radix) ELSE FALSE

RECURSIVE DigitVals(_, _, _, _)
DigitVals(out, i, n, acc) == IF i > n THEN acc ELSE DigitVals(out, i + 1, n, Append(acc, RawDigit(out[i])))

(* v = [neg, d] with d the decimal digits of |v| (Rust Display); out = written bytes.        *)
(* Returns "" when fine, else the reason.                                                    *)
IntWriteWhy(v, radix, f, out) ==
    LET n     == Len(out)
        wantS == IF v.neg THEN CMinus ELSE IF f.required_mantissa_sign THEN CPlus ELSE 0
        start == IF wantS = 0 THEN 1 ELSE 2
        nd    == n - start + 1
    IN  IF wantS # 0 /\ (n = 0 \/ out[1] # wantS) THEN "sign byte missing or wrong"
        ELSE IF nd <= 0 THEN "no digits"
        ELSE IF ~AllCanonDigits(out, start, n, radix) THEN "byte that is not a canonical digit of the radix"
        ELSE IF nd > 1 /\ out[start] = CZero THEN "leading zero"
        ELSE IF FromDigits(DigitVals(out, start, n, << >>), radix) # FromDec(v.d) THEN "numeral denotes a different value"
        ELSE ""
=============================================================================
