CONSTANT Variant = "fast_exp"
INIT Init
NEXT Next
INVARIANT Correct
INVARIANT LossyOneUlp
INVARIANT FastSameLossy
INVARIANT RoundingIsNearest
CHECK_DEADLOCK FALSE
