CONSTANT PowHiN = 48
INIT PInit
NEXT PNext
CHECK_DEADLOCK FALSE
