CONSTANT PowHiN = 48
INIT Init
NEXT Next
INVARIANT NativeAgree
CHECK_DEADLOCK FALSE
