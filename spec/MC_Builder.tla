------------------------------ MODULE MC_Builder -----------------------------
(***************************************************************************)
(* The format builder as a state machine: state = the format record, one    *)
(* action per public setter (Format!ApplySetter).  Explored breadth-first   *)
(* to depth MaxDepth from new().  Invariants (C18 / C16 at the design        *)
(* level):                                                                   *)
(*   - every getter shows the last value set (group setters set exactly      *)
(*     their members);                                                       *)
(*   - rebuild(build_unchecked(b)) is a fixpoint and keeps validity;         *)
(*   - validity is monotone in the feature set (enabling a feature never     *)
(*     invalidates a format): additivity of validation;                      *)
(*   - a valid format has pairwise distinct, non-digit, non-sign punctuation.*)
(***************************************************************************)
EXTENDS Options, TLC

CONSTANT MaxDepth

Bools == {TRUE, FALSE}
Chars == {0, 95, 120, 43, 49, 200}
Radices == {0, 2, 10, 16, 36, 37}

FlagSetters == { FlagNames[i] : i \in 1..Len(FlagNames) }
GroupSetters == {"required_digits", "internal_digit_separator", "leading_digit_separator", "trailing_digit_separator",
                 "consecutive_digit_separator", "digit_separator_flags", "integer_digit_separator_flags",
                 "fraction_digit_separator_flags", "exponent_digit_separator_flags"}
CharSetters == {"digit_separator", "base_prefix", "base_suffix"}
RadixSetters == {"mantissa_radix", "exponent_base", "exponent_radix"}

Calls == (FlagSetters \X Bools) \cup (GroupSetters \X Bools) \cup (CharSetters \X Chars) \cup (RadixSetters \X Radices)
         \cup ({"from_radix"} \X {2, 10, 16, 36})

VARIABLES f, depth, last
Init == f = NewFormat /\ depth = 0 /\ last = << "new", 0 >>
Next == /\ depth < MaxDepth
        /\ \E c \in Calls : f' = ApplySetter(f, c[1], c[2]) /\ last' = c
        /\ depth' = depth + 1

AllFeat == [format |-> TRUE, pow2 |-> TRUE, radix |-> TRUE]
Feats == { [format |-> a, pow2 |-> b, radix |-> c] : a \in Bools, b \in Bools, c \in Bools }
Leq(x, y) == (x.format => y.format) /\ (x.pow2 => y.pow2) /\ (x.radix => y.radix) /\ (x.radix => x.pow2) /\ (y.radix => y.pow2)

GetterShowsLastSet ==
    \/ last[1] \in {"new", "from_radix"} \cup GroupSetters
    \/ f[last[1]] = last[2]

GroupMembers(g) ==
    CASE g = "required_digits" -> {"required_integer_digits", "required_fraction_digits", "required_exponent_digits", "required_mantissa_digits"}
      [] g = "internal_digit_separator" -> {"integer_internal_digit_separator", "fraction_internal_digit_separator", "exponent_internal_digit_separator"}
      [] g = "leading_digit_separator" -> {"integer_leading_digit_separator", "fraction_leading_digit_separator", "exponent_leading_digit_separator"}
      [] g = "trailing_digit_separator" -> {"integer_trailing_digit_separator", "fraction_trailing_digit_separator", "exponent_trailing_digit_separator"}
      [] g = "consecutive_digit_separator" -> {"integer_consecutive_digit_separator", "fraction_consecutive_digit_separator", "exponent_consecutive_digit_separator"}
      [] g = "integer_digit_separator_flags" -> {"integer_internal_digit_separator", "integer_leading_digit_separator", "integer_trailing_digit_separator", "integer_consecutive_digit_separator"}
      [] g = "fraction_digit_separator_flags" -> {"fraction_internal_digit_separator", "fraction_leading_digit_separator", "fraction_trailing_digit_separator", "fraction_consecutive_digit_separator"}
      [] g = "exponent_digit_separator_flags" -> {"exponent_internal_digit_separator", "exponent_leading_digit_separator", "exponent_trailing_digit_separator", "exponent_consecutive_digit_separator"}
      [] OTHER -> { k \in FlagSetters : \E c \in {"internal", "leading", "trailing", "consecutive"} : FALSE } \cup
                  { FlagNames[i] : i \in 19..31 }
GroupSetsMembers == last[1] \in GroupSetters => \A k \in GroupMembers(last[1]) : f[k] = last[2]

RebuildFixpoint == RebuildView(RebuildView(f)) = RebuildView(f)
RebuildKeepsValidity == \A ft \in Feats : FormatValidity(RebuildView(f), ft) = FormatValidity(f, ft)

ValidityMonotone ==
    \A a \in Feats, b \in Feats :
        (Leq(a, b) /\ FormatValidity(f, a) = "valid") => FormatValidity(f, b) = "valid"

ValidPunctuation ==
    FormatValidity(f, AllFeat) = "valid" =>
        \A c \in {PackedView(f).digit_separator, f.base_prefix, f.base_suffix} :
            c = 0 \/ (~IsDigit(c, ControlRadixOf(f)) /\ c # CPlus /\ c # CMinus /\ IsAscii(c))

StandardIsValid == depth = 0 => \A ft \in Feats : FormatValidity(f, ft) = "valid"
=============================================================================
