CONSTANT PowHiN = 4
CONSTANT MaxLen = 6
CONSTANT ODBias = 0
INIT Init
NEXT Next
INVARIANT StrategyIsExact
INVARIANT IndicesInRange
INVARIANT PartialCompleteAgree
CHECK_DEADLOCK FALSE
