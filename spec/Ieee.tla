-------------------------------- MODULE Ieee --------------------------------
(***************************************************************************)
(* IEEE-754 binary formats as mathematics TLC can evaluate.                 *)
(*                                                                         *)
(* A format is [p, emin, emax]: finite values are M * 2^e with             *)
(* 0 <= M < 2^p, emin <= e <= emax, canonical when M >= 2^(p-1) or e = emin.*)
(* A float result is a record [cls, neg, M, e] with cls in                  *)
(* {"zero","finite","inf","nan"} and M a BigNat.                            *)
(*                                                                         *)
(* An exact non-negative real to be rounded is a "scaled natural"           *)
(* [D, q, b, sticky] meaning D * b^q (+ something in (0, b^q) iff sticky). *)
(* All predicates are in verify form: given a claimed result, compare.      *)
(***************************************************************************)
EXTENDS BigNat

F32 == [p |-> 24, emin |-> -149,  emax |-> 104]
F64 == [p |-> 53, emin |-> -1074, emax |-> 971]

Scaled(D, q, b) == [D |-> D, q |-> q, b |-> b, sticky |-> FALSE]

(* sign of x - M * 2^e.  A sticky x is only ever built from a digit string  *)
(* longer than any halfway point of the formats in use (see FloatParse), so *)
(* equality of the truncated part means "strictly above".                   *)
CmpX(x, M, e) ==
    LET c == CmpScaled(x.D, x.q, x.b, M, e)
    IN  IF c # 0 THEN c ELSE IF x.sticky THEN 1 ELSE 0

XIsZero(x) == x.D = << >> /\ ~x.sticky

Canonical(F, M, e) ==
    /\ e >= F.emin /\ e <= F.emax
    /\ M # << >>
    /\ Cmp(M, Pow2(F.p)) < 0
    /\ (e = F.emin \/ Cmp(M, Pow2(F.p - 1)) >= 0)

AtBinadeFloor(F, M, e) == e > F.emin /\ M = Pow2(F.p - 1)

(* endpoints of the round-to-nearest interval of the finite float M * 2^e *)
HiM(M)       == Add(MulSmall(M, 2), One)                                  \* * 2^(e-1)
LoM(F, M, e) == IF AtBinadeFloor(F, M, e) THEN Sub(MulSmall(M, 4), One) ELSE Sub(MulSmall(M, 2), One)
LoE(F, M, e) == IF AtBinadeFloor(F, M, e) THEN e - 2 ELSE e - 1

(* x rounds (nearest, ties to even) to the canonical finite float M * 2^e.  *)
(* Also right at the extremes: for the largest finite float the upper       *)
(* endpoint is the overflow threshold and its mantissa is odd (tie -> inf); *)
(* for the smallest subnormal the lower endpoint is half of it, odd too.    *)
InInterval(F, x, M, e) ==
    LET chi  == CmpX(x, HiM(M), e - 1)
        clo  == CmpX(x, LoM(F, M, e), LoE(F, M, e))
        even == IsEven(M)
    IN  /\ (chi < 0 \/ (chi = 0 /\ even))
        /\ (clo > 0 \/ (clo = 0 /\ even))

RoundsToZero(F, x) == CmpX(x, One, F.emin - 1) <= 0
MaxM(F) == Sub(Pow2(F.p), One)
RoundsToInf(F, x)  == CmpX(x, Sub(Pow2(F.p + 1), One), F.emax - 1) >= 0

(* r = [cls, M, e] (sign handled by the caller) is the correctly rounded value of x *)
CorrectlyRounded(F, x, r) ==
    CASE r.cls = "zero"   -> RoundsToZero(F, x)
      [] r.cls = "inf"    -> RoundsToInf(F, x)
      [] r.cls = "finite" -> Canonical(F, r.M, r.e) /\ InInterval(F, x, r.M, r.e)
      [] OTHER            -> FALSE

(* neighbours of a non-negative float *)
Succ(F, r) ==
    CASE r.cls = "zero" -> [cls |-> "finite", M |-> One, e |-> F.emin]
      [] r.cls = "inf"  -> r
      [] OTHER ->
           LET m1 == Add(r.M, One)
           IN  IF m1 = Pow2(F.p)
               THEN IF r.e = F.emax THEN [cls |-> "inf", M |-> << >>, e |-> 0]
                    ELSE [cls |-> "finite", M |-> Pow2(F.p - 1), e |-> r.e + 1]
               ELSE [cls |-> "finite", M |-> m1, e |-> r.e]

Pred(F, r) ==
    CASE r.cls = "zero" -> r
      [] r.cls = "inf"  -> [cls |-> "finite", M |-> MaxM(F), e |-> F.emax]
      [] OTHER ->
           IF AtBinadeFloor(F, r.M, r.e)
           THEN [cls |-> "finite", M |-> MaxM(F), e |-> r.e - 1]
           ELSE LET m1 == Sub(r.M, One)
                IN  IF m1 = << >> THEN [cls |-> "zero", M |-> << >>, e |-> 0]
                    ELSE [cls |-> "finite", M |-> m1, e |-> r.e]

(* r is the correctly rounded value of x or one of its two neighbours *)
WithinOneUlp(F, x, r) ==
    \/ CorrectlyRounded(F, x, r)
    \/ (r.cls # "inf"  /\ CorrectlyRounded(F, x, Succ(F, r)))
    \/ (r.cls # "zero" /\ CorrectlyRounded(F, x, Pred(F, r)))

(* |x - M * 2^e| < k * 2^e   (k < 2 000 000) *)
WithinUlps(x, M, e, k) ==
    /\ CmpX(x, Add(M, FromInt(k)), e) < 0
    /\ (Cmp(M, FromInt(k)) <= 0 \/ CmpX(x, Sub(M, FromInt(k)), e) > 0)

ExactlyEqual(x, M, e) == ~x.sticky /\ CmpScaled(x.D, x.q, x.b, M, e) = 0

(***************************************************************************)
(* Shortest round-trip decimal output (C02).  d is the tuple of decimal    *)
(* digits (no leading or trailing zero), n = Len(d), value = d * 10^k.     *)
(***************************************************************************)
RoundTrips(F, Dg, k, M, e) == InInterval(F, Scaled(Dg, k, 10), M, e)

(* By convexity of the interval the only candidates with fewer digits that  *)
(* can lie inside are floor(d/10) * 10^(k+1) and the next multiple.         *)
IsShortest(F, d, n, k, M, e) ==
    \/ n = 1
    \/ LET m1 == FromDecRange(d, 1, n - 1)
           m2 == Add(m1, One)
       IN  /\ ~InInterval(F, Scaled(m1, k + 1, 10), M, e)
           /\ ~InInterval(F, Scaled(m2, k + 1, 10), M, e)

(* no n-digit neighbour that round-trips is strictly closer to M * 2^e *)
IsClosest(F, d, n, k, M, e) ==
    LET Dg  == FromDecRange(d, 1, n)
        up  == IF n = 1 /\ d[1] = 9 THEN [D |-> One, k |-> k + 1] ELSE [D |-> Add(Dg, One), k |-> k]
        dn  == IF n = 1 /\ d[1] = 1 THEN [D |-> << 9 >>, k |-> k - 1] ELSE [D |-> Sub(Dg, One), k |-> k]
        \* midpoints: (D1*10^k1 + D2*10^k2)/2 compared with M*2^e  <=>  sum compared with M*2^(e+1)
        kk  == Min(up.k, k)
        sumUp == Add(ShiftDec(up.D, up.k - kk), ShiftDec(Dg, k - kk))
        kd  == Min(dn.k, k)
        sumDn == Add(ShiftDec(dn.D, dn.k - kd), ShiftDec(Dg, k - kd))
    IN  /\ (InInterval(F, Scaled(up.D, up.k, 10), M, e) => CmpScaled(sumUp, kk, 10, M, e + 1) >= 0)
        /\ (dn.D # << >> /\ InInterval(F, Scaled(dn.D, dn.k, 10), M, e)
               => CmpScaled(sumDn, kd, 10, M, e + 1) <= 0)

=============================================================================
