---------------------------- MODULE MC_IntParse ----------------------------
(***************************************************************************)
(* Design-level model of integer parsing on toy widths (3..6 bits).         *)
(*                                                                         *)
(* Reference: IntParse!IntParseSpec (exact arithmetic, left-to-right error  *)
(* classification).  Strategy: what the implementation does -- wrapping     *)
(* arithmetic for the first OverflowDigits(T, radix) digits, checked        *)
(* arithmetic afterwards -- on native integers with explicit wrap-around.   *)
(* Invariant: the strategy returns exactly the reference result for every   *)
(* string (explored by extension, all strings up to MaxLen over a small     *)
(* alphabet).  With OD == OverflowDigits + 1 (MC_IntParse_bad.cfg) TLC      *)
(* prints the counterexample shape that the generators of C04 aim at.       *)
(***************************************************************************)
EXTENDS IntParse, TLC

CONSTANTS MaxLen, ODBias

ToyTypes == { [bits |-> b, signed |-> sg] : b \in {3, 4, 6}, sg \in BOOLEAN }
Radices  == {2, 3, 10, 16}

MaxOf(T) == IF T.signed THEN IPow(2, T.bits - 1) - 1 ELSE IPow(2, T.bits) - 1
MinOf(T) == IF T.signed THEN 0 - IPow(2, T.bits - 1) ELSE 0

(* largest k such that every k-digit numeral fits: radix^k - 1 <= MAX *)
RECURSIVE ODFrom(_, _, _)
ODFrom(T, r, k) == IF IPow(r, k + 1) - 1 <= MaxOf(T) THEN ODFrom(T, r, k + 1) ELSE k
OverflowDigits(T, r) == ODFrom(T, r, 0)
OD(T, r) == OverflowDigits(T, r) + ODBias

Wrap(T, x) == LET m == IPow(2, T.bits) IN
              IF T.signed THEN ((x + m \div 2) % m) - m \div 2 ELSE x % m

(* digits s[i..n]; v current value (already signed); nd digits seen; left = unchecked digits left *)
RECURSIVE Strat(_, _, _, _, _, _, _, _, _, _)
Strat(T, r, s, n, i, neg, v, nd, left, partial) ==
    IF i > n THEN (IF nd = 0 THEN [k |-> "err", code |-> "Empty", idx |-> i - 1] ELSE [k |-> "ok", val |-> v, n |-> n])
    ELSE IF ~IsDigit(s[i], r) THEN
        IF nd = 0 THEN (IF partial THEN [k |-> "uns"] ELSE [k |-> "err", code |-> "EmptyOrInvalid", idx |-> i - 1])
        ELSE IF partial THEN [k |-> "ok", val |-> v, n |-> i - 1]
        ELSE [k |-> "err", code |-> "InvalidDigit", idx |-> i - 1]
    ELSE LET d  == DigitVal(s[i])
             nv == IF neg THEN v * r - d ELSE v * r + d
         IN  IF left > 0
             THEN Strat(T, r, s, n, i + 1, neg, Wrap(T, nv), nd + 1, left - 1, partial)
             ELSE IF nv > MaxOf(T) \/ nv < MinOf(T)
                  THEN [k |-> "err", code |-> IF neg THEN "Underflow" ELSE "Overflow", idx |-> i - 1]
                  ELSE Strat(T, r, s, n, i + 1, neg, nv, nd + 1, 0, partial)

Strategy(T, r, s, n, partial) ==
    LET hasPlus  == n >= 1 /\ s[1] = CPlus
        hasMinus == n >= 1 /\ s[1] = CMinus /\ T.signed
        start    == IF hasPlus \/ hasMinus THEN 2 ELSE 1
        ndig     == n - start + 1
        (* "shorter strings cannot possibly overflow": everything unchecked *)
        left     == IF ndig <= OD(T, r) THEN ndig ELSE OD(T, r)
    IN  Strat(T, r, s, n, start, hasMinus, 0, 0, left, partial)

(* the reference result in the same shape (value as a native signed integer) *)
Ref(T, r, s, n, partial) ==
    LET x == IntParseSpec(T, r, s, n, partial) IN
    IF x.k = "ok" THEN [k |-> "ok", val |-> IF n >= 1 /\ s[1] = CMinus THEN 0 - ToInt(x.mag) ELSE ToInt(x.mag), n |-> x.n]
    ELSE x

VARIABLES vt, vr, vs
Alphabet(r) == {CZero, 49, DigitChar(r - 1), CMinus, CPlus, 120}      \* 0 1 top - + x
Init == vt \in ToyTypes /\ vr \in Radices /\ vs = << >>
Next == Len(vs) < MaxLen /\ \E c \in Alphabet(vr) : vs' = Append(vs, c) /\ UNCHANGED << vt, vr >>

StrategyIsExact ==
    /\ Strategy(vt, vr, vs, Len(vs), FALSE) = Ref(vt, vr, vs, Len(vs), FALSE)
    /\ Strategy(vt, vr, vs, Len(vs), TRUE)  = Ref(vt, vr, vs, Len(vs), TRUE)

(* indices never leave the input (C10 at the design level) *)
IndicesInRange ==
    LET x == IntParseSpec(vt, vr, vs, Len(vs), FALSE)  y == IntParseSpec(vt, vr, vs, Len(vs), TRUE) IN
    /\ (x.k = "err" => x.idx <= Len(vs)) /\ (x.k = "ok" => x.n = Len(vs))
    /\ (y.k = "err" => y.idx <= Len(vs)) /\ (y.k = "ok" => y.n <= Len(vs))

(* C11 at the design level: partial and complete agree on the reference *)
PartialCompleteAgree ==
    LET x == IntParseSpec(vt, vr, vs, Len(vs), FALSE)  y == IntParseSpec(vt, vr, vs, Len(vs), TRUE) IN
    /\ (x.k = "ok" => y.k = "ok" /\ y.n = Len(vs) /\ y.mag = x.mag)
    /\ (y.k = "ok" /\ y.n = Len(vs) => x.k = "ok")
    /\ (y.k = "ok" /\ y.n > 0 => LET z == IntParseSpec(vt, vr, SubSeq(vs, 1, y.n), y.n, FALSE) IN z.k = "ok" /\ z.mag = y.mag)
=============================================================================
