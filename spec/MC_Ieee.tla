------------------------------ MODULE MC_Ieee ------------------------------
(***************************************************************************)
(* The oracles of Ieee.tla against their textbook definitions, on a toy     *)
(* binary format small enough to enumerate:  p = 3, emin = -3, emax = 2.    *)
(*                                                                         *)
(*  1. CorrectlyRounded(F, x, r) holds exactly for the candidate r that a   *)
(*     brute-force "nearest, ties to even" over all toy floats selects, for *)
(*     every x = d * b^q on a grid and radices 2, 3, 10, 16 (native-integer *)
(*     arithmetic on the brute-force side).                                 *)
(*  2. RoundTrips /\ IsShortest /\ IsClosest (the convexity shortcut and    *)
(*     the neighbour rule) select exactly the digit strings that the        *)
(*     definition "shortest that round-trips, closest among those" selects. *)
(*  3. Succ / Pred are inverse and WithinOneUlp is what it says.            *)
(***************************************************************************)
EXTENDS Ieee, TLC, FiniteSets

TF == [p |-> 3, emin |-> -3, emax |-> 2]

Floats == { <<m, e>> \in (1..7) \X (-3..2) : m >= 4 \/ e = -3 }      \* canonical finite, non-zero
Cands  == { <<"zero", 0, 0>> } \cup { <<"finite", f[1], f[2]>> : f \in Floats } \cup { <<"inf", 0, 0>> }

AsRes(c) == [cls |-> c[1], M |-> FromInt(c[2]), e |-> c[3]]

(* brute force, everything scaled by 2^4 * b^3 into native integers *)
IP(b, k) == IPow(b, k)
XS(d, q, b) == d * IP(b, q + 3) * 16                       \* q in -3..1
VS(c, b) == CASE c[1] = "zero" -> 0
              [] c[1] = "inf"  -> 32 * 16 * IP(b, 3)        \* 2^(emax+p) stands for infinity, even
              [] OTHER -> c[2] * IP(2, c[3] + 4) * IP(b, 3)
EvenC(c) == c[1] # "finite" \/ c[2] % 2 = 0
Abs(x) == IF x < 0 THEN 0 - x ELSE x
BruteNearest(d, q, b, c) ==
    \A c2 \in Cands \ {c} :
        LET d1 == Abs(XS(d, q, b) - VS(c, b))   d2 == Abs(XS(d, q, b) - VS(c2, b))
        IN  d1 < d2 \/ (d1 = d2 /\ EvenC(c))

VARIABLES vd, vq, vb
(* two stages so that TLC's workers share the grid: first d, then (q, b) *)
Init == vd = -1 /\ vq = -9 /\ vb = 2
Next == \/ vd = -1 /\ vd' \in 0..40 /\ UNCHANGED << vq, vb >>
        \/ vd >= 0 /\ vq = -9 /\ vq' \in -3..1 /\ vb' \in {2, 3, 10, 16} /\ UNCHANGED vd

Grid(d, q, b) == d >= 0 /\ q >= -3 /\ XS(d, q, b) < 40 * 16 * IP(b, 3)           \* stay in the neighbourhood of the toy range

RoundingAgrees ==
    Grid(vd, vq, vb) =>
        \A c \in Cands : CorrectlyRounded(TF, Scaled(FromInt(vd), vq, vb), AsRes(c)) <=> BruteNearest(vd, vq, vb, c)

(* exactly one candidate is the correctly rounded one *)
RoundingUnique ==
    Grid(vd, vq, vb) =>
        Cardinality({ c \in Cands : CorrectlyRounded(TF, Scaled(FromInt(vd), vq, vb), AsRes(c)) }) = 1

OneUlpMeaning ==
    Grid(vd, vq, vb) =>
        \A c \in Cands :
            WithinOneUlp(TF, Scaled(FromInt(vd), vq, vb), AsRes(c))
              <=> \E c2 \in Cands : /\ CorrectlyRounded(TF, Scaled(FromInt(vd), vq, vb), AsRes(c2))
                                    /\ (c2 = c \/ AsRes(c2) = Succ(TF, AsRes(c)) \/ AsRes(c2) = Pred(TF, AsRes(c)))

(* ---- shortest digits ---- *)
NoTrail(d) == d % 10 # 0
DCands == { <<d, k>> \in (1..99) \X (-4..1) : NoTrail(d) /\ (k = 1 => d < 5) /\ (k = 0 => d < 40) }
NDig(d) == IF d >= 10 THEN 2 ELSE 1
DigTuple(d) == IF d >= 10 THEN << d \div 10, d % 10 >> ELSE << d >>

InTab == [ f \in Floats |-> { dc \in DCands : InInterval(TF, Scaled(FromInt(dc[1]), dc[2], 10), FromInt(f[1]), f[2]) } ]

(* |v - y| scaled by 2^4 * 10^4 *)
Dist(f, dc) == Abs(f[1] * IP(2, f[2] + 4) * 10000 - dc[1] * IP(10, dc[2] + 4) * 16)

DefShortestClosest(f, dc) ==
    /\ dc \in InTab[f]
    /\ \A o \in InTab[f] : NDig(o[1]) >= NDig(dc[1])
    /\ \A o \in InTab[f] : NDig(o[1]) = NDig(dc[1]) => Dist(f, dc) <= Dist(f, o)

SpecShortestClosest(f, dc) ==
    LET d == DigTuple(dc[1])  n == NDig(dc[1])  M == FromInt(f[1]) IN
    /\ RoundTrips(TF, FromInt(dc[1]), dc[2], M, f[2])
    /\ IsShortest(TF, d, n, dc[2], M, f[2])
    /\ IsClosest(TF, d, n, dc[2], M, f[2])

(* only floats whose shortest representation has at most two digits are decided by this grid *)
HasShort(f) == InTab[f] # {}
ASSUME \A f \in Floats : HasShort(f) =>
          \A dc \in DCands : SpecShortestClosest(f, dc) <=> DefShortestClosest(f, dc)
ASSUME \A f \in Floats : HasShort(f) => \E dc \in DCands : SpecShortestClosest(f, dc)
ASSUME Cardinality({ f \in Floats : HasShort(f) }) >= 20

ASSUME \A c \in Cands : c[1] # "inf"  => Pred(TF, Succ(TF, AsRes(c))) = AsRes(c)
ASSUME \A c \in Cands : c[1] # "zero" => Succ(TF, Pred(TF, AsRes(c))) = AsRes(c)
ASSUME \A f \in Floats : Canonical(TF, FromInt(f[1]), f[2])
ASSUME ~Canonical(TF, FromInt(3), -2) /\ ~Canonical(TF, FromInt(8), 0) /\ ~Canonical(TF, FromInt(4), 3)
=============================================================================
