------------------------------- MODULE MC_Docs ------------------------------
(***************************************************************************)
(* The grammar specification against the documentation it transcribes:     *)
(* every example of format_builder.rs (the hidden doctest blocks, which     *)
(* upstream executes, and the Input/Valid tables of the flag setters,        *)
(* harvested by tools/harvest_docs.py into DOCS) must get the documented     *)
(* verdict from Scan -- or "U" where the documentation contradicts itself.   *)
(* A disagreement is a defect of the specification, never of the code.       *)
(***************************************************************************)
EXTENDS FloatParse, Json, IOUtils, TLC

Docs == ndJsonDeserialize(IOEnv.DOCS)
ND == Len(Docs)

DocOpts(d) == [lossy |-> FALSE, exp |-> IF d.optradix >= 15 THEN CCaret ELSE CLowerE, point |-> CDot,
               nan |-> << 78, 97, 78 >>, inf |-> << 105, 110, 102 >>,
               infinity |-> << 105, 110, 102, 105, 110, 105, 116, 121 >>]

IsFloatDoc(d) == d.ty \in {"f32", "f64"}

Verdict(d) ==
    LET f  == BuildFormat(d.calls)
        o  == DocOpts(d)
        n  == Len(d.in)
        sc == ScanComplete(IF IsFloatDoc(d) THEN "float" ELSE "int", f, o, d.in, n)
        sp == IF IsFloatDoc(d) THEN SpecialOf(f, o, d.in, n) ELSE [k |-> "no"]
    IN  IF sc.v = "A" THEN "A"
        ELSE IF sc.v = "U" THEN "U"
        ELSE IF sp.k # "no" THEN "A"
        ELSE "R"

Agrees(d) == LET v == Verdict(d) IN v = "U" \/ (v = "A") = (d.expect = "ok")

Bad(src) == { i \in 1..ND : Docs[i].src = src /\ ~Agrees(Docs[i]) }
UnspecSet == { i \in 1..ND : Verdict(Docs[i]) = "U" }

VARIABLE x
Init == x = 0
Next == UNCHANGED x

ASSUME PrintT(<< "DOCS", ND, "doctest-mismatch", Bad("doctest"), "table-mismatch", Bad("table"), "unspecified", UnspecSet >>)
DoctestsAgree == x = 0 /\ Bad("doctest") = {}
TablesAgree   == x = 0 /\ Bad("table") = {}
=============================================================================
