CONSTANT Variant = "ok"
CONSTANT Deep = FALSE
CONSTANT Exhaustive = TRUE
SPECIFICATION Spec
INVARIANT CandidatesExact
CHECK_DEADLOCK FALSE
