-------------------------------- MODULE Chars -------------------------------
(* Bytes and digit values.  Inputs and outputs are tuples of byte values     *)
(* (0..255) because TLA+ strings are atomic.                                 *)
EXTENDS Integers, Sequences

CPlus == 43      CMinus == 45     CDot == 46      CZero == 48
CLowerE == 101   CUpperE == 69    CCaret == 94    CUnderscore == 95

IsDecDigit(c) == c >= 48 /\ c <= 57
IsUpper(c)    == c >= 65 /\ c <= 90
IsLower(c)    == c >= 97 /\ c <= 122
IsLetter(c)   == IsUpper(c) \/ IsLower(c)
IsAscii(c)    == c >= 0 /\ c < 128

ToLower(c) == IF IsUpper(c) THEN c + 32 ELSE c
EqIgnoreCase(a, b) == ToLower(a) = ToLower(b)

(* value of byte c as a digit, 99 if it is not alphanumeric *)
RawDigit(c) == IF IsDecDigit(c) THEN c - 48
               ELSE IF IsUpper(c) THEN c - 65 + 10
               ELSE IF IsLower(c) THEN c - 97 + 10
               ELSE 99
IsDigit(c, radix) == RawDigit(c) < radix
DigitVal(c) == RawDigit(c)

(* canonical output digit: 0-9 then upper-case A-Z *)
DigitChar(v) == IF v < 10 THEN 48 + v ELSE 65 + v - 10

(* byte-wise equality of s[lo..lo+Len(t)-1] with t, optionally ignoring ASCII case *)
RECURSIVE EqAt(_, _, _, _, _)
EqAt(s, lo, t, i, cs) ==
    IF i > Len(t) THEN TRUE
    ELSE IF (IF cs THEN s[lo + i - 1] = t[i] ELSE EqIgnoreCase(s[lo + i - 1], t[i]))
         THEN EqAt(s, lo, t, i + 1, cs)
         ELSE FALSE
=============================================================================
