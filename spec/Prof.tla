---- MODULE Prof ----
EXTENDS Trace
ASSUME PrintT(<<"validity", FormatValidity(FMT[90], [format |-> TRUE, pow2 |-> TRUE, radix |-> TRUE]), FMT[90].no_special, FMT[90].case_sensitive_special>>)
ASSUME PrintT(<<"cv", ConfigValidity(Rec[1], TRUE), Contract(Rec[1])>>)
PInit == l = 0 /\ ep = 0 /\ obs = <<>> /\ bad = <<>>
PNext == UNCHANGED vars
====
