----------------------------- MODULE FloatWrite -----------------------------
(***************************************************************************)
(* Float -> string.  Reading back what was written: the written bytes are   *)
(* scanned with the grammar of the same format (Scan), giving sign, digit   *)
(* string and exponent; the digit-level predicates of Ieee judge them.      *)
(***************************************************************************)
EXTENDS FloatParse

RECURSIVE LastNonZero(_, _)
LastNonZero(d, i) == IF i = 0 THEN 0 ELSE IF d[i] # 0 THEN i ELSE LastNonZero(d, i - 1)

(* significant digits (no leading / trailing zeros) and the exponent k of the last kept digit, *)
(* for a scanned decimal number: value = digits * radix^k (radix = exponent base assumed)      *)
SigDigits(num, f) ==
    LET md == num.int \o num.frac
        n  == Len(md)
        z  == FirstNonZero(md, 1, n)
        l  == LastNonZero(md, n)
        ea == ExpValue(num.exp, ExponentRadix(f), 1, 0)
        ev == IF num.esign = 2 THEN 0 - ea ELSE ea
    IN  IF z > n THEN [d |-> << >>, n |-> 0, k |-> 0, total |-> n]
        ELSE [d |-> SubSeq(md, z, l), n |-> l - z + 1, k |-> ev - Len(num.frac) + (n - l), total |-> n - z + 1]

DefaultNan == << 78, 97, 78 >>       \* "NaN"
DefaultInf == << 105, 110, 102 >>    \* "inf"
DefaultInfinity == << 105, 110, 102, 105, 110, 105, 116, 121 >>
=============================================================================
