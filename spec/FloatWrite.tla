----------------------------- MODULE FloatWrite -----------------------------
(***************************************************************************)
(* Float -> string.  Reading back what was written: the written bytes are   *)
(* scanned with the grammar of the same format (Scan), giving sign, digit   *)
(* string and exponent; the digit-level predicates of Ieee judge them.      *)
(***************************************************************************)
EXTENDS FloatParse

RECURSIVE LastNonZero(_, _)
LastNonZero(d, i) == IF i = 0 THEN 0 ELSE IF d[i] # 0 THEN i ELSE LastNonZero(d, i - 1)

(* significant digits (no leading / trailing zeros) and the exponent k of the last kept digit, *)
(* for a scanned decimal number: value = digits * radix^k (radix = exponent base assumed)      *)
SigDigits(num, f) ==
    LET md == num.int \o num.frac
        n  == Len(md)
        z  == FirstNonZero(md, 1, n)
        l  == LastNonZero(md, n)
        ea == ExpValue(num.exp, ExponentRadix(f), 1, 0)
        ev == IF num.esign = 2 THEN 0 - ea ELSE ea
    IN  IF z > n THEN [d |-> << >>, n |-> 0, k |-> 0, total |-> n]
        ELSE [d |-> SubSeq(md, z, l), n |-> l - z + 1, k |-> ev - Len(num.frac) + (n - l), total |-> n - z + 1]

(***************************************************************************)
(* The writer's option pipeline, as far as the properties constrain it.     *)
(* A written number is read back with the grammar (Scan) and described by   *)
(*   lay = [d, n, total, se, hasExp, hasPoint, fracAllZero, nfrac]          *)
(* d: significant digits without leading / trailing zeros, n = Len(d);      *)
(* total: digits written from the first non-zero one to the end (padding    *)
(* zeros included); se: exponent of the leading significant digit (the      *)
(* "scientific exponent", in digits of the mantissa radix).                 *)
(***************************************************************************)
RECURSIVE AllZero(_, _, _)
AllZero(d, i, n) == IF i > n THEN TRUE ELSE IF d[i] # 0 THEN FALSE ELSE AllZero(d, i + 1, n)

Layout(num, f) ==
    LET md == num.int \o num.frac
        n  == Len(md)
        z  == FirstNonZero(md, 1, n)
        l  == LastNonZero(md, n)
        ea == ExpValue(num.exp, ExponentRadix(f), 1, 0)
        ev == IF num.esign = 2 THEN 0 - ea ELSE ea
    IN  [d |-> IF z > n THEN << >> ELSE SubSeq(md, z, l),
         n |-> IF z > n THEN 0 ELSE l - z + 1,
         total |-> IF z > n THEN n ELSE n - z + 1,
         se |-> (Len(num.int) - z) + ev,
         ev |-> ev,
         nint |-> Len(num.int), nfrac |-> Len(num.frac),
         fracAllZero |-> AllZero(num.frac, 1, Len(num.frac))]

(* compare the dropped digits t[from..n] with one half (radix r); -1, 0, 1 *)
RECURSIVE CmpHalfFrom(_, _, _, _, _)
CmpHalfFrom(t, i, n, r, first) ==
    IF r % 2 = 0 THEN
        (IF i > n THEN (IF first THEN -1 ELSE 0)
         ELSE IF first THEN (IF t[i] * 2 > r THEN 1 ELSE IF t[i] * 2 < r THEN -1 ELSE CmpHalfFrom(t, i + 1, n, r, FALSE))
         ELSE IF t[i] # 0 THEN 1 ELSE CmpHalfFrom(t, i + 1, n, r, FALSE))
    ELSE \* odd radix: one half is (r-1)/2 repeated for ever; a finite string never equals it
        (IF i > n THEN -1
         ELSE IF t[i] * 2 > r - 1 THEN 1 ELSE IF t[i] * 2 < r - 1 THEN -1 ELSE CmpHalfFrom(t, i + 1, n, r, FALSE))

(* add one unit in the last place of the digit tuple t (radix r); result [d, carried] *)
RECURSIVE IncDigits(_, _, _)
IncDigits(t, i, r) ==
    IF i = 0 THEN [d |-> << 1 >> \o t, carried |-> TRUE]
    ELSE IF t[i] + 1 < r THEN [d |-> [t EXCEPT ![i] = t[i] + 1], carried |-> FALSE]
    ELSE IncDigits([t EXCEPT ![i] = 0], i - 1, r)

(* round the digit tuple d (n digits, no leading zero) to m < n digits: [d, carried] *)
RoundDigits(d, n, m, r, mode) ==
    LET kept == SubSeq(d, 1, m)
        c    == CmpHalfFrom(d, m + 1, n, r, TRUE)
        up   == mode = "round" /\ (c > 0 \/ (c = 0 /\ d[m] % 2 = 1))
    IN  IF ~up THEN [d |-> kept, carried |-> FALSE]
        ELSE LET x == IncDigits(kept, m, r) IN
             IF x.carried THEN [d |-> SubSeq(x.d, 1, m), carried |-> TRUE] ELSE x

StripTrailing(t) == LET l == LastNonZero(t, Len(t)) IN IF l = 0 THEN << >> ELSE SubSeq(t, 1, l)

(***************************************************************************)
(* Clauses of C14 (and the exponent-sign clause of C08) that can be judged  *)
(* on one output alone: sc = Scan of the written bytes `out` under format f *)
(* and options o = [max, min, pos, neg, round, trim, exp, point, ...].      *)
(* Returns a tuple of << property, reason >>.                               *)
(***************************************************************************)
VC(cond, prop, why) == IF cond THEN << >> ELSE << << prop, why >> >>

LayoutClauses(f, o, sc, out) ==
    LET lay == Layout(sc, f)
        sci == sc.hasExp
        epos == SegLo(sc.segs, "echar", 1)
        decimal == Radix(f) = 10 /\ ExponentBase(f) = 10
        Want(se) == ~f.no_exponent_notation /\ (f.required_exponent_notation \/ se < o.neg \/ se > o.pos)
        AtBreak(se) == se = o.neg \/ se = o.pos
        (* the scientific exponent is that of the float; when rounding to max_significant_digits carried *)
        (* into a new leading digit (output digits "1") the rounded value's exponent is accepted too     *)
        carriedMaybe == o.max > 0 /\ lay.n = 1 /\ lay.d[1] = 1
        notationOk == \/ AtBreak(lay.se) \/ sci = Want(lay.se)
                      \/ (carriedMaybe /\ (AtBreak(lay.se - 1) \/ sci = Want(lay.se - 1)))
        trimmedInt == o.trim /\ ~sc.hasPoint
    IN  VC(~(sci /\ f.no_exponent_notation), "C14", "exponent notation used although the format forbids it")
     \o VC(f.required_exponent_notation /\ ~f.no_exponent_notation => sci, "C14", "exponent notation required by the format but not used")
     \o (IF decimal /\ lay.n > 0 /\ ~f.required_exponent_notation /\ ~f.no_exponent_notation
         THEN VC(notationOk, "C14", IF sci THEN "exponent notation used inside the break points" ELSE "positional notation used outside the break points")
         ELSE << >>)
     \o VC(sci => out[epos] = o.exp, "C14", "exponent character differs from the configured one")
     \o VC(o.max > 0 /\ lay.n > 0 => lay.n <= o.max, "C14", "more significant digits than max_significant_digits")
     \o VC(o.min > 0 /\ lay.n > 0 /\ ~trimmedInt => lay.total >= o.min, "C14", "fewer significant digits than min_significant_digits")
     \o VC(f.required_exponent_sign /\ sci => sc.esign # 0, "C08", "required exponent sign not written")

DefaultNan == << 78, 97, 78 >>       \* "NaN"
DefaultInf == << 105, 110, 102 >>    \* "inf"
DefaultInfinity == << 105, 110, 102, 105, 110, 105, 116, 121 >>
=============================================================================
