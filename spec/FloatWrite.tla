----------------------------- MODULE FloatWrite -----------------------------
(***************************************************************************)
(* Float -> string.  Reading back what was written: the written bytes are   *)
(* scanned with the grammar of the same format (Scan), giving sign, digit   *)
(* string and exponent; the digit-level predicates of Ieee judge them.      *)
(***************************************************************************)
EXTENDS FloatParse

RECURSIVE LastNonZero(_, _)
LastNonZero(d, i) == IF i = 0 THEN 0 ELSE IF d[i] # 0 THEN i ELSE LastNonZero(d, i - 1)

(* significant digits (no leading / trailing zeros) and the exponent k of the last kept digit, *)
(* for a scanned decimal number: value = digits * radix^k (radix = exponent base assumed)      *)
SigDigits(num, f) ==
    LET md == num.int \o num.frac
        n  == Len(md)
        z  == FirstNonZero(md, 1, n)
        l  == LastNonZero(md, n)
        ea == ExpValue(num.exp, ExponentRadix(f), 1, 0)
        ev == IF num.esign = 2 THEN 0 - ea ELSE ea
    IN  IF z > n THEN [d |-> << >>, n |-> 0, k |-> 0, total |-> n]
        ELSE [d |-> SubSeq(md, z, l), n |-> l - z + 1, k |-> ev - Len(num.frac) + (n - l), total |-> n - z + 1]

(***************************************************************************)
(* The writer's option pipeline, as far as the properties constrain it.     *)
(* A written number is read back with the grammar (Scan) and described by   *)
(*   lay = [d, n, total, se, hasExp, hasPoint, fracAllZero, nfrac]          *)
(* d: significant digits without leading / trailing zeros, n = Len(d);      *)
(* total: digits written from the first non-zero one to the end (padding    *)
(* zeros included); se: exponent of the leading significant digit (the      *)
(* "scientific exponent", in digits of the mantissa radix).                 *)
(***************************************************************************)
RECURSIVE AllZero(_, _, _)
AllZero(d, i, n) == IF i > n THEN TRUE ELSE IF d[i] # 0 THEN FALSE ELSE AllZero(d, i + 1, n)

Layout(num, f) ==
    LET md == num.int \o num.frac
        n  == Len(md)
        z  == FirstNonZero(md, 1, n)
        l  == LastNonZero(md, n)
        ea == ExpValue(num.exp, ExponentRadix(f), 1, 0)
        ev == IF num.esign = 2 THEN 0 - ea ELSE ea
    IN  [d |-> IF z > n THEN << >> ELSE SubSeq(md, z, l),
         n |-> IF z > n THEN 0 ELSE l - z + 1,
         total |-> IF z > n THEN n ELSE n - z + 1,
         se |-> (Len(num.int) - z) + ev,
         ev |-> ev,
         nint |-> Len(num.int), nfrac |-> Len(num.frac),
         fracAllZero |-> AllZero(num.frac, 1, Len(num.frac))]

(* compare the dropped digits t[from..n] with one half (radix r); -1, 0, 1 *)
RECURSIVE CmpHalfFrom(_, _, _, _, _)
CmpHalfFrom(t, i, n, r, first) ==
    IF r % 2 = 0 THEN
        (IF i > n THEN (IF first THEN -1 ELSE 0)
         ELSE IF first THEN (IF t[i] * 2 > r THEN 1 ELSE IF t[i] * 2 < r THEN -1 ELSE CmpHalfFrom(t, i + 1, n, r, FALSE))
         ELSE IF t[i] # 0 THEN 1 ELSE CmpHalfFrom(t, i + 1, n, r, FALSE))
    ELSE \* odd radix: one half is (r-1)/2 repeated for ever; a finite string never equals it
        (IF i > n THEN -1
         ELSE IF t[i] * 2 > r - 1 THEN 1 ELSE IF t[i] * 2 < r - 1 THEN -1 ELSE CmpHalfFrom(t, i + 1, n, r, FALSE))

(* add one unit in the last place of the digit tuple t (radix r); result [d, carried] *)
RECURSIVE IncDigits(_, _, _)
IncDigits(t, i, r) ==
    IF i = 0 THEN [d |-> << 1 >> \o t, carried |-> TRUE]
    ELSE IF t[i] + 1 < r THEN [d |-> [t EXCEPT ![i] = t[i] + 1], carried |-> FALSE]
    ELSE IncDigits([t EXCEPT ![i] = 0], i - 1, r)

(* round the digit tuple d (n digits, no leading zero) to m < n digits: [d, carried] *)
RoundDigits(d, n, m, r, mode) ==
    LET kept == SubSeq(d, 1, m)
        c    == CmpHalfFrom(d, m + 1, n, r, TRUE)
        up   == mode = "round" /\ (c > 0 \/ (c = 0 /\ d[m] % 2 = 1))
    IN  IF ~up THEN [d |-> kept, carried |-> FALSE]
        ELSE LET x == IncDigits(kept, m, r) IN
             IF x.carried THEN [d |-> SubSeq(x.d, 1, m), carried |-> TRUE] ELSE x

StripTrailing(t) == LET l == LastNonZero(t, Len(t)) IN IF l = 0 THEN << >> ELSE SubSeq(t, 1, l)

DefaultNan == << 78, 97, 78 >>       \* "NaN"
DefaultInf == << 105, 110, 102 >>    \* "inf"
DefaultInfinity == << 105, 110, 102, 105, 110, 105, 116, 121 >>
=============================================================================
