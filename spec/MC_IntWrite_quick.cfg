CONSTANT Variant = "ok"
CONSTANT WBITS = 8
CONSTANT Radices = {2, 3, 7, 10, 16, 36}
CONSTANT Dense = FALSE
SPECIFICATION Spec
INVARIANT InBounds
INVARIANT FilledExactly
INVARIANT Canonical
INVARIANT Exact
INVARIANT NothingLeft
CHECK_DEADLOCK FALSE
