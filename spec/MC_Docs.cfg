CONSTANT PowHiN = 4
INIT Init
NEXT Next
INVARIANT DoctestsAgree
CHECK_DEADLOCK FALSE
