CONSTANT Variant = "err_scale"
INIT Init
NEXT Next
INVARIANT Correct
INVARIANT LossyOneUlp
INVARIANT FastSameLossy
INVARIANT RoundingIsNearest
CHECK_DEADLOCK FALSE
