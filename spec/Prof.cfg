CONSTANT PowHiN = 48
SPECIFICATION Spec
CHECK_DEADLOCK FALSE
