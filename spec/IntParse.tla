------------------------------ MODULE IntParse ------------------------------
(***************************************************************************)
(* String -> integer (C04).  T = [bits, signed].  For separator- and flag-  *)
(* free formats the error kind and position are fully specified: a left-to- *)
(* right scan reports what it meets first.  Indices are 0-based byte        *)
(* offsets, as in lexical's Error.                                          *)
(***************************************************************************)
EXTENDS Scan, BigNat

IntTypes == [ u8 |-> [bits |-> 8, signed |-> FALSE],   i8 |-> [bits |-> 8, signed |-> TRUE],
              u16 |-> [bits |-> 16, signed |-> FALSE], i16 |-> [bits |-> 16, signed |-> TRUE],
              u32 |-> [bits |-> 32, signed |-> FALSE], i32 |-> [bits |-> 32, signed |-> TRUE],
              u64 |-> [bits |-> 64, signed |-> FALSE], i64 |-> [bits |-> 64, signed |-> TRUE],
              u128 |-> [bits |-> 128, signed |-> FALSE], i128 |-> [bits |-> 128, signed |-> TRUE],
              usize |-> [bits |-> 64, signed |-> FALSE], isize |-> [bits |-> 64, signed |-> TRUE] ]

(* largest magnitude representable with the given sign *)
MaxMag(T, neg) == IF ~T.signed THEN Sub(Pow2(T.bits), One)
                  ELSE IF neg THEN Pow2(T.bits - 1) ELSE Sub(Pow2(T.bits - 1), One)

Fits(T, neg, mag) == Cmp(mag, MaxMag(T, neg)) <= 0 /\ (neg => T.signed \/ mag = << >>)

(* scan digits s[i..n]; acc = exact value so far; nd = digits seen.                          *)
(* result: [k |-> "ok", mag, n (bytes consumed)] | [k |-> "err", code, idx]                  *)
RECURSIVE IntDigits(_, _, _, _, _, _, _, _, _, _)
IntDigits(T, radix, s, n, i, neg, acc, nd, lim, partial) ==
    IF i > n THEN
        IF nd = 0 THEN [k |-> "err", code |-> "Empty", idx |-> i - 1]
        ELSE [k |-> "ok", mag |-> acc, n |-> n]
    ELSE IF ~IsDigit(s[i], radix) THEN
        (* no digit at all, then a non-digit byte.  Complete: "Empty when no digit follows the optional sign" and  *)
        (* "InvalidDigit at the first byte that is not a digit" both describe it.  Partial: the property only      *)
        (* says the parser stops there; upstream's own tests pin Ok((0, 0)) for unsigned "-12345" -- unspecified.  *)
        IF nd = 0 THEN (IF partial THEN [k |-> "uns"] ELSE [k |-> "err", code |-> "EmptyOrInvalid", idx |-> i - 1])
        ELSE IF partial THEN [k |-> "ok", mag |-> acc, n |-> i - 1]
        ELSE [k |-> "err", code |-> "InvalidDigit", idx |-> i - 1]
    ELSE LET a2 == MulAddSmall(acc, radix, DigitVal(s[i]))
         IN  IF Cmp(a2, lim) > 0
             THEN [k |-> "err", code |-> IF neg THEN "Underflow" ELSE "Overflow", idx |-> i - 1]
             ELSE IntDigits(T, radix, s, n, i + 1, neg, a2, nd + 1, lim, partial)

IntParseSpec(T, radix, s, n, partial) ==
    LET hasPlus  == n >= 1 /\ s[1] = CPlus
        hasMinus == n >= 1 /\ s[1] = CMinus /\ T.signed
        start    == IF hasPlus \/ hasMinus THEN 2 ELSE 1
    IN  IntDigits(T, radix, s, n, start, hasMinus, << >>, 0, MaxMag(T, hasMinus), partial)
=============================================================================
