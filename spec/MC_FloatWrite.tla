---------------------------- MODULE MC_FloatWrite ---------------------------
(***************************************************************************)
(* The float writer's option pipeline as a state machine on small digit     *)
(* strings (decimal):                                                       *)
(*    Start -> TruncateRound -> ChooseNotation -> LayOut -> done            *)
(* over all significant-digit strings of length <= 3 from {0,1,4,5,9},      *)
(* scientific exponents around both breaks, max/min digits, both round      *)
(* modes, trim on/off, three break settings and the exponent-notation /     *)
(* exponent-sign flags.  The reference writer below is the documented       *)
(* behaviour written constructively; the invariants say that                *)
(*   - the bytes it lays out are accepted by the grammar of the same format *)
(*     (Scan) and denote exactly the rounded digits (C08 at design level),  *)
(*   - the verify-form clauses used on real traces (LayoutClauses, the      *)
(*     digit relation of C14) accept it: the contract is satisfiable and    *)
(*     agrees with the constructive reading,                                *)
(*   - count bounds, carry handling and trimming are as documented.         *)
(***************************************************************************)
EXTENDS FloatWrite, TLC

CONSTANT MaxDigits          \* 2 (quick) or 3 (thorough)

DigitSet == {0, 1, 4, 5, 9}
DigitStrings == { << a >> : a \in DigitSet \ {0} } \cup
                { << a, b >> : a \in DigitSet \ {0}, b \in DigitSet \ {0} } \cup
                (IF MaxDigits >= 3 THEN { << a, b, c >> : a \in DigitSet \ {0}, b \in DigitSet, c \in DigitSet \ {0} } ELSE {})
SciExps == {-7, -6, -5, -4, -1, 0, 1, 2, 8, 9, 10, 11}
DigitOpts == { << mx, mn >> \in {0, 1, 2, 3} \X {0, 1, 3, 5} : mx = 0 \/ mn = 0 \/ mn <= mx }
Breaks == { << 9, -5 >>, << 1, -1 >>, << 10, -6 >> }
FlagSets == { [noexp |-> FALSE, reqexp |-> FALSE, reqsign |-> FALSE],
              [noexp |-> TRUE,  reqexp |-> FALSE, reqsign |-> FALSE],
              [noexp |-> FALSE, reqexp |-> TRUE,  reqsign |-> TRUE] }

VARIABLES stage, d0, se0, opt, fl, dig, se, carried, sci, out
vars == << stage, d0, se0, opt, fl, dig, se, carried, sci, out >>

Fmt == [NewFormat EXCEPT !.no_exponent_notation = fl.noexp, !.required_exponent_notation = fl.reqexp,
                         !.required_exponent_sign = fl.reqsign]

Init == /\ stage = "start"
        /\ d0 \in DigitStrings /\ se0 \in SciExps
        /\ \E dg \in DigitOpts, br \in Breaks, rd \in {"round", "truncate"}, tr \in BOOLEAN :
              opt = [max |-> dg[1], min |-> dg[2], pos |-> br[1], neg |-> br[2], round |-> rd, trim |-> tr,
                     exp |-> CLowerE, point |-> CDot, nan |-> << >>, inf |-> << >>]
        /\ fl \in FlagSets
        /\ dig = d0 /\ se = se0 /\ carried = FALSE /\ sci = FALSE /\ out = << >>

(* 1. truncate / round to max_significant_digits; a carry adds a leading digit *)
TruncateRound ==
    /\ stage = "start" /\ stage' = "rounded"
    /\ LET n == Len(d0)
           r == IF opt.max > 0 /\ opt.max < n THEN RoundDigits(d0, n, opt.max, 10, opt.round) ELSE [d |-> d0, carried |-> FALSE]
       IN  dig' = StripTrailing(r.d) /\ carried' = r.carried /\ se' = se0 + (IF r.carried THEN 1 ELSE 0)
    /\ UNCHANGED << d0, se0, opt, fl, sci, out >>

(* 2. notation: the code judges the float's exponent; the documentation allows the rounded one on carry *)
ChooseNotation ==
    /\ stage = "rounded" /\ stage' = "notation"
    /\ sci' = (~fl.noexp /\ (fl.reqexp \/ se0 < opt.neg \/ se0 > opt.pos))
    /\ UNCHANGED << d0, se0, opt, fl, dig, se, carried, out >>

RECURSIVE ZerosT(_)
ZerosT(k) == IF k <= 0 THEN << >> ELSE << 0 >> \o ZerosT(k - 1)
Chr(ds) == [i \in 1..Len(ds) |-> 48 + ds[i]]
RECURSIVE DecDigitsOf(_)
DecDigitsOf(n) == IF n < 10 THEN << n >> ELSE Append(DecDigitsOf(n \div 10), n % 10)

(* 3. lay out *)
LayOut ==
    /\ stage = "notation" /\ stage' = "done"
    /\ LET n    == Len(dig)
           pad  == IF opt.min > n THEN opt.min - n ELSE 0
           full == dig \o ZerosT(pad)                       \* significant digits incl. min padding
           nf   == Len(full)
       IN  out' =
             IF sci THEN
                 LET fr   == SubSeq(full, 2, nf)
                     mant == IF fr = << >> THEN (IF opt.trim THEN << 48 + full[1] >> ELSE << 48 + full[1], CDot, 48 >>)
                             ELSE << 48 + full[1], CDot >> \o Chr(fr)
                     ex   == IF se < 0 THEN << CMinus >> \o Chr(DecDigitsOf(0 - se))
                             ELSE (IF fl.reqsign THEN << CPlus >> ELSE << >>) \o Chr(DecDigitsOf(se))
                 IN  mant \o << opt.exp >> \o ex
             ELSE IF se >= 0 THEN
                 LET ip == IF nf >= se + 1 THEN SubSeq(full, 1, se + 1) ELSE full \o ZerosT(se + 1 - nf)
                     fr == IF nf > se + 1 THEN SubSeq(full, se + 2, nf) ELSE << >>
                     intOnly == n <= se + 1                      \* an integral value: trimming wins over padding
                 IN  IF intOnly /\ opt.trim THEN Chr(IF n >= se + 1 THEN SubSeq(dig, 1, se + 1) ELSE dig \o ZerosT(se + 1 - n))
                     ELSE IF fr = << >> THEN Chr(ip) \o << CDot, 48 >>
                     ELSE Chr(ip) \o << CDot >> \o Chr(fr)
             ELSE << 48, CDot >> \o Chr(ZerosT(0 - se - 1)) \o Chr(full)
    /\ UNCHANGED << d0, se0, opt, fl, dig, se, carried, sci >>

Next == TruncateRound \/ ChooseNotation \/ LayOut
Spec == Init /\ [][Next]_vars

(* ------------------------------------------------------------------------------------------ *)
PO == [lossy |-> FALSE, exp |-> opt.exp, point |-> opt.point, nan |-> << >>, inf |-> << >>, infinity |-> << >>]
Sc == ScanComplete("float", Fmt, PO, out, Len(out))

(* C08 at the design level: what is laid out is a number of the same format with the same digits *)
OutputParsesBack ==
    stage = "done" =>
        /\ Sc.v = "A"
        /\ LET lay == Layout(Sc, Fmt) IN lay.d = dig /\ lay.se = se

(* the verify-form clauses used on real traces accept the documented behaviour *)
ClausesAccept == stage = "done" => LayoutClauses(Fmt, opt, Sc, out) = << >>

(* count bounds *)
CountBounds ==
    stage = "done" =>
        LET lay == Layout(Sc, Fmt) IN
        /\ (opt.max > 0 => lay.n <= opt.max)
        /\ (opt.min > 0 /\ ~(opt.trim /\ ~Sc.hasPoint) => lay.total >= opt.min)

(* rounding: the kept digits are the nearest (or the truncation), a carry is a single leading 1 *)
CarryIsOne == stage # "start" /\ carried => dig = << 1 >> /\ se = se0 + 1
NoDigitsInvented == stage # "start" /\ ~carried /\ opt.round = "truncate" =>
                       dig = StripTrailing(SubSeq(d0, 1, IF opt.max > 0 /\ opt.max < Len(d0) THEN opt.max ELSE Len(d0)))

(* the length arithmetic of Bounds (C09's design model) is the length of these bytes; on a carry the notation was *)
(* chosen on the float's exponent se0 while the digits sit at se0 + 1, which OutLen does not describe             *)
BND == INSTANCE Bounds
LenAgrees ==
    stage = "done" /\ ~carried =>
        Len(out) = BND!OutLen(Len(dig), se, [min |-> opt.min, max |-> opt.max, neg |-> opt.neg, pos |-> opt.pos, trim |-> opt.trim],
                             [noexp |-> fl.noexp, reqexp |-> fl.reqexp, reqsign |-> fl.reqsign])

(* trimming removes exactly ".0" *)
TrimExact ==
    stage = "done" /\ opt.trim /\ ~Sc.hasPoint => (Len(dig) <= se + 1 /\ ~sci) \/ (sci /\ Len(dig) = 1 /\ opt.min <= 1)
=============================================================================
