CONSTANT Variant = "ok"
INIT Init
NEXT Next
INVARIANT Correct
INVARIANT LossyOneUlp
INVARIANT FastSameLossy
INVARIANT RoundingIsNearest
CHECK_DEADLOCK FALSE
