----------------------------- MODULE FloatParse -----------------------------
(***************************************************************************)
(* String -> float: the exact value denoted by an accepted input, and the   *)
(* special strings.                                                         *)
(***************************************************************************)
EXTENDS Scan, Ieee

TruncLimit == 1200      \* more significant digits than any halfway point of f32/f64 in an even radix

RECURSIVE FirstNonZero(_, _, _)
FirstNonZero(d, i, n) == IF i > n THEN n + 1 ELSE IF d[i] # 0 THEN i ELSE FirstNonZero(d, i + 1, n)

RECURSIVE AnyNonZero(_, _, _)
AnyNonZero(d, i, n) == IF i > n THEN FALSE ELSE IF d[i] # 0 THEN TRUE ELSE AnyNonZero(d, i + 1, n)

ExpCap == 10000000
RECURSIVE ExpValueN(_, _, _, _, _)
ExpValueN(d, n, radix, i, acc) ==
    IF i > n THEN acc
    ELSE LET a2 == acc * radix + d[i] IN ExpValueN(d, n, radix, i + 1, IF a2 > ExpCap THEN ExpCap ELSE a2)
ExpValue(d, radix, i, acc) == ExpValueN(d, Len(d), radix, i, acc)

Log2Of(r) == CASE r = 2 -> 1 [] r = 4 -> 2 [] r = 8 -> 3 [] r = 16 -> 4 [] r = 32 -> 5 [] OTHER -> 0

(* exact value of an accepted number (magnitude), as a scaled natural *)
FloatExact(num, f) ==
    LET md    == num.int \o num.frac
        n     == Len(md)
        z     == FirstNonZero(md, 1, n)
        nsig  == n - z + 1
        r     == Radix(f)
        base  == ExponentBase(f)
        ea    == ExpValue(num.exp, ExponentRadix(f), 1, 0)
        ev    == IF num.esign = 2 THEN 0 - ea ELSE ea
        nf    == Len(num.frac)
        trunc == nsig > TruncLimit /\ r % 2 = 0
        hi    == IF trunc THEN z + TruncLimit - 1 ELSE n
        D     == IF z > n THEN << >> ELSE FromDigitsRange(md, z, hi, r)
        st    == trunc /\ AnyNonZero(md, hi + 1, n)
        drop  == n - hi
    IN  IF r = base
        THEN [D |-> D, q |-> ev + drop - nf, b |-> r, sticky |-> st]
        ELSE [D |-> D, q |-> ev * Log2Of(base) + (drop - nf) * Log2Of(r), b |-> 2, sticky |-> st]

(***************************************************************************)
(* Special strings (C15): after an optional sign the whole rest equals the  *)
(* NaN / short-infinity / long-infinity option string.  << >> stands for an   *)
(* option that is None.                                                     *)
(***************************************************************************)
RECURSIVE StripSep(_, _, _, _)
StripSep(s, sep, i, acc) ==
    IF i > Len(s) THEN acc ELSE StripSep(s, sep, i + 1, IF s[i] = sep THEN acc ELSE Append(acc, s[i]))

EqualsSpecial(f, body, str) ==
    /\ str # << >>
    /\ Len(body) = Len(str)
    /\ EqAt(body, 1, str, 1, f.case_sensitive_special)

(* "nan" / "inf" / "no" and the sign *)
SpecialOf(f, o, s, n) ==
    LET hasSign == n >= 1 /\ (s[1] = CPlus \/ s[1] = CMinus)
        neg     == n >= 1 /\ s[1] = CMinus
        raw     == IF hasSign THEN SubSeq(s, 2, n) ELSE s
        body    == IF f.special_digit_separator /\ f.digit_separator # 0
                   THEN StripSep(raw, f.digit_separator, 1, << >>) ELSE raw
    IN  IF f.no_special \/ Len(body) = 0 THEN [k |-> "no", neg |-> neg]
        ELSE IF EqualsSpecial(f, body, o.nan) THEN [k |-> "nan", neg |-> neg]
        ELSE IF EqualsSpecial(f, body, o.inf) \/ EqualsSpecial(f, body, o.infinity) THEN [k |-> "inf", neg |-> neg]
        ELSE [k |-> "no", neg |-> neg]
=============================================================================
