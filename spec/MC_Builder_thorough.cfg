CONSTANT MaxDepth = 3
INIT Init
NEXT Next
INVARIANT GetterShowsLastSet
INVARIANT GroupSetsMembers
INVARIANT RebuildFixpoint
INVARIANT RebuildKeepsValidity
INVARIANT ValidityMonotone
INVARIANT ValidPunctuation
INVARIANT StandardIsValid
CHECK_DEADLOCK FALSE
