----------------------------- MODULE MC_Pipeline ----------------------------
(***************************************************************************)
(* Design-level model of the three-tier string -> float pipeline on a toy   *)
(* binary format (p = 4, exponents -4..4) and a toy "register" that keeps   *)
(* the first 3 significant decimal digits of the input:                     *)
(*                                                                         *)
(*   fast     : both the significand and the power of ten are exactly       *)
(*              representable; one correctly rounded multiplication or      *)
(*              division of two floats                                      *)
(*   moderate : truncated 7-bit power table, integer product, an error      *)
(*              bound; answers only if lower and upper bound round alike    *)
(*              (lossy: answers with the lower bound regardless)            *)
(*   slow     : exact                                                       *)
(*                                                                         *)
(* Invariants: whatever tier answers, the answer is the correctly rounded   *)
(* value (C01 at the design level); the lossy answer is within one unit in  *)
(* the last place (C19); fast-path inputs are exact in lossy mode too.      *)
(* Variant = "ok" is the design; "fast_exp" (fast path allowed for a power  *)
(* that is not exactly representable) and "err_scale" (truncation error not *)
(* scaled -- the shape of the Bellerophon defect repaired in 33b115a) are   *)
(* the negative controls: TLC finds counterexamples for them.               *)
(***************************************************************************)
EXTENDS Integers, TLC

CONSTANT Variant

P == 4
EMin == -4
EMax == 4
Abs(x) == IF x < 0 THEN 0 - x ELSE x
RECURSIVE Pow(_, _)
Pow(b, k) == IF k = 0 THEN 1 ELSE b * Pow(b, k - 1)

(* canonical toy floats, as pairs (m, e); zero is (0, EMin); "infinity" is (2^(P-1), EMax + 1) *)
Floats == { << m, e >> \in (0..(Pow(2, P) - 1)) \X (EMin..EMax) : m = 0 => e = EMin }
Canon(f) == f[1] = 0 \/ f[1] >= Pow(2, P - 1) \/ f[2] = EMin
Cands == { f \in Floats : Canon(f) } \cup { << Pow(2, P - 1), EMax + 1 >> }
Even(f) == f[1] % 2 = 0

(* value of float f scaled by 2^(-EMin): an integer *)
FV(f) == f[1] * Pow(2, f[2] - EMin)

(* RN(a / b): the float nearest to the rational a/b (a >= 0, b > 0), ties to even, computed binade by   *)
(* binade with integer division; RNDef is the definition (nearest candidate), RNAgrees ties them together *)
Dist(a, b, f) == Abs(a * Pow(2, 0 - EMin) - FV(f) * b)        \* |a/b - f| * b * 2^(-EMin)
RNDef(a, b) == CHOOSE f \in Cands : \A g \in Cands \ {f} : Dist(a, b, f) < Dist(a, b, g) \/ (Dist(a, b, f) = Dist(a, b, g) /\ Even(f))

RECURSIVE RNFrom(_, _, _)
RNFrom(num, b, e) ==                                            \* num = a * 2^(-EMin)
    LET den == b * Pow(2, e - EMin)
        m0  == num \div den
        rem == num % den
        up  == 2 * rem > den \/ (2 * rem = den /\ m0 % 2 = 1)
        m   == IF up THEN m0 + 1 ELSE m0
    IN  IF m0 >= Pow(2, P) /\ e <= EMax THEN RNFrom(num, b, e + 1)
        ELSE IF e > EMax THEN << Pow(2, P - 1), EMax + 1 >>
        ELSE IF m = Pow(2, P) THEN << Pow(2, P - 1), e + 1 >>
        ELSE IF m = 0 THEN << 0, EMin >>
        ELSE << m, e >>
RN(a, b) == RNFrom(a * Pow(2, 0 - EMin), b, EMin)
RNAgrees(a, b) == RN(a, b) = RNDef(a, b)

IsFloatInt(n) == \E f \in Cands : f[2] >= 0 /\ FV(f) = n * Pow(2, 0 - EMin) /\ f[2] <= EMax     \* n exactly representable

VARIABLES D, q
Init == D \in 1..1999 /\ q \in -3..3
Next == UNCHANGED << D, q >>

(* the register: first 3 significant digits *)
Trunc == D >= 1000
W  == IF Trunc THEN D \div 10 ELSE D
Q  == IF Trunc THEN q + 1 ELSE q

(* exact value D * 10^q as a fraction *)
XA == IF q >= 0 THEN D * Pow(10, q) ELSE D
XB == IF q >= 0 THEN 1 ELSE Pow(10, 0 - q)
Exact == RN(XA, XB)

(* ---- fast path *)
MaxExactExp == IF Variant = "fast_exp" THEN 2 ELSE 1           \* 10^1 = 1010b fits 4 bits, 10^2 does not
FastEligible == ~Trunc /\ W < Pow(2, P) /\ Abs(Q) <= MaxExactExp
P10F(k) == RN(Pow(10, k), 1)                                   \* the power as a float (rounded if it does not fit)
FastResult ==
    LET pf == P10F(Abs(Q))  pv == FV(pf) IN                    \* pv = pf * 2^(-EMin)
    IF Q >= 0 THEN RN(W * pv, Pow(2, 0 - EMin)) ELSE RN(W * Pow(2, 0 - EMin), pv)

(* ---- moderate path: T = floor(10^Q * 2^s) with 7 significant bits *)
K == 7
RECURSIVE ShiftFor(_, _)
(* smallest s (possibly negative) such that floor(10^Q * 2^s) >= 2^(K-1) *)
TabNum(s) == IF Q >= 0 THEN (IF s >= 0 THEN Pow(10, Q) * Pow(2, s) ELSE Pow(10, Q) \div Pow(2, 0 - s))
             ELSE (IF s >= 0 THEN Pow(2, s) \div Pow(10, 0 - Q) ELSE 0)
ShiftFor(s, fuel) == IF fuel = 0 \/ TabNum(s) >= Pow(2, K - 1) THEN s ELSE ShiftFor(s + 1, fuel - 1)
Sh == ShiftFor(-12, 40)
T  == TabNum(Sh)                                               \* 2^(K-1) <= T < 2^K, 10^Q in [T, T+1) * 2^(-Sh)
Prod == W * T
(* true value lies in [Prod, Prod + Err) * 2^(-Sh) *)
Err == IF Variant = "err_scale" THEN W ELSE (IF Trunc THEN W + T + 1 ELSE W)
Lo == IF Sh >= 0 THEN RN(Prod, Pow(2, Sh)) ELSE RN(Prod * Pow(2, 0 - Sh), 1)
Hi == IF Sh >= 0 THEN RN(Prod + Err, Pow(2, Sh)) ELSE RN((Prod + Err) * Pow(2, 0 - Sh), 1)
ModerateDecides == Lo = Hi
Lossy == Lo

Pipeline == IF FastEligible THEN FastResult ELSE IF ModerateDecides THEN Lo ELSE Exact
PipelineLossy == IF FastEligible THEN FastResult ELSE Lossy

Neighbours(f, g) ==
    \/ f = g
    \/ ~\E h \in Cands : (FV(f) < FV(h) /\ FV(h) < FV(g)) \/ (FV(g) < FV(h) /\ FV(h) < FV(f))

Correct        == Pipeline = Exact
LossyOneUlp    == Neighbours(PipelineLossy, Exact)
FastSameLossy  == FastEligible => PipelineLossy = Pipeline
RoundingIsNearest == RNAgrees(XA, XB)          \* the fast RN equals its definition (checked on the exact values)
=============================================================================
