CONSTANT PowHiN = 4
CONSTANT MaxDigits = 3
SPECIFICATION Spec
INVARIANT OutputParsesBack
INVARIANT ClausesAccept
INVARIANT CountBounds
INVARIANT CarryIsOne
INVARIANT NoDigitsInvented
INVARIANT TrimExact
INVARIANT LenAgrees
CHECK_DEADLOCK FALSE
