------------------------------- MODULE BoundsCore ------------------------------
(***************************************************************************)
(* C09 at the design level: the length of what the decimal float writer    *)
(* lays out, as arithmetic on                                              *)
(*    nd  number of significant digits kept (no trailing zeros), nd >= 1   *)
(*    se  scientific exponent of the leading digit                         *)
(*    o   [min, max, pos, neg, trim]           (write-float options)       *)
(*    fl  [noexp, reqexp, reqsign]              (format flags)             *)
(* OutLen is the length of MC_FloatWrite!LayOut's byte string (MC_Bounds    *)
(* checks the two agree on every small case), without the mantissa sign.   *)
(* LongestOutput is the maximum over every (nd, se) a float of the type    *)
(* can have; a buffer bound is sufficient only if it is at least that.     *)
(***************************************************************************)
EXTENDS Integers

DecLen(n) == IF n < 10 THEN 1 ELSE IF n < 100 THEN 2 ELSE IF n < 1000 THEN 3 ELSE IF n < 10000 THEN 4 ELSE 5
Max2(a, b) == IF a >= b THEN a ELSE b
Min2(a, b) == IF a <= b THEN a ELSE b

\* @type: (Int, {min: Int, max: Int, neg: Int, pos: Int, trim: Bool}, {noexp: Bool, reqexp: Bool, reqsign: Bool}) => Bool;
WantSci(se, o, fl) == ~fl.noexp /\ (fl.reqexp \/ se < o.neg \/ se > o.pos)

\* @type: (Int, Int, {min: Int, max: Int, neg: Int, pos: Int, trim: Bool}, {noexp: Bool, reqexp: Bool, reqsign: Bool}) => Int;
OutLen(nd, se, o, fl) ==
    LET nf == Max2(nd, o.min) IN                               \* digits incl. min_significant_digits padding
    IF WantSci(se, o, fl) THEN
        (IF nf = 1 THEN (IF o.trim THEN 1 ELSE 3) ELSE nf + 1)                \* d | d.0 | d.ddd
        + 1                                                                    \* exponent character
        + (IF se < 0 THEN 1 + DecLen(0 - se) ELSE (IF fl.reqsign THEN 1 ELSE 0) + DecLen(se))
    ELSE IF se >= 0 THEN
        (IF nd <= se + 1 /\ o.trim THEN se + 1                                \* integral and trimmed
         ELSE IF nf <= se + 1 THEN se + 3                                      \* ddd.0
         ELSE nf + 1)                                                          \* dd.ddd
    ELSE 1 - se + nf                                                          \* 0.000ddd : 2 + (-se-1) + nf

(* the floats of a type: range of se, and how many shortest digits a float with that se can need.  The   *)
(* count for subnormals is deliberately low (never more than exist), so the demand is never exaggerated. *)
\* @type: (Str) => {lo: Int, hi: Int, nmax: Int, sub: Int};
TypeDom(ty) == IF ty = "f64" THEN [lo |-> -324, hi |-> 308, nmax |-> 17, sub |-> -307]
               ELSE [lo |-> -45,  hi |-> 38,  nmax |-> 9,  sub |-> -37]
NMax(ty, se) == LET T == TypeDom(ty) IN IF se >= T.sub THEN T.nmax ELSE Max2(1, se - T.lo)

(* digits kept when max_significant_digits = mx cuts n generated digits, without a carry (digits 1..1) *)
Kept(n, mx) == IF mx > 0 THEN Min2(n, mx) ELSE n

(***************************************************************************)
(* The bound the code documents (lexical-write-float options.rs,           *)
(* buffer_size_const, decimal, after fix 1366816 / 3da4759): the *design*  *)
(* whose sufficiency MC_Bounds checks; traces are NOT compared with this   *)
(* formula, only with LongestOutput.                                       *)
(***************************************************************************)
Abs(x) == IF x < 0 THEN 0 - x ELSE x
\* @type: ({min: Int, max: Int, neg: Int, pos: Int, trim: Bool}, {noexp: Bool, reqexp: Bool, reqsign: Bool}, Bool, Int, Str) => Int;
DocBound(o, fl, pow2, formattedSize, Variant) ==
    LET expRoom == IF pow2 THEN 13 ELSE 12
        zeros == IF ~fl.noexp THEN Max2(Max2(Abs(o.neg), o.pos), expRoom) - (IF Variant = "exp_room_minus_1" THEN 1 ELSE 0)
                 ELSE IF pow2 THEN 1075 ELSE 324
        digits == IF Variant = "max_lowers" /\ o.max > 0 THEN Max2(o.max, o.min) ELSE Max2(28, o.min)
    IN  Max2(2 + zeros + digits, formattedSize)
=============================================================================
