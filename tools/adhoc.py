#!/usr/bin/env python3
"""Ad-hoc probe: run a few parse cases through the worker and TLC's Trace spec.
usage: adhoc.py CFG FMT_NAME_OR_ID TY EXPCHAR 'input' ['input' ...]   (each input is run complete and partial)
Prints the result of each call and every mismatch the specification reports.  Not a registered check."""
import json, os, sys
sys.path.insert(0, os.path.dirname(os.path.abspath(__file__)))
import vlib, plans


def main():
    cfg, fmt, ty, ech = sys.argv[1:5]
    F = vlib.load_formats()
    fid = int(fmt) if fmt.isdigit() else [f["id"] for f in F if f["name"] == fmt][0]
    cs = plans.Cases()
    isf = ty in ("f32", "f64")
    o = plans.pf(exp=ord(ech)) if isf else dict(plans.PI_DEFAULT)
    for s in sys.argv[5:]:
        ep = cs.new_ep()
        b = s.encode("latin-1")
        cs.parse(ep, ty, fid, list(b), [cfg], wo=True, opts=o)
        cs.parse(ep, ty, fid, list(b), [cfg], wo=True, opts=o, partial=True, want_prefix=True)
    wdir = os.path.join(vlib.WORK, "adhoc-%d" % os.getpid())
    os.makedirs(wdir, exist_ok=True)
    ev = plans.execute(cs, wdir)
    cs2 = plans.Cases()
    cs2.nid = cs.nid
    for e in ev:
        if e.get("partial") and e["res"].get("k") == "ok" and e["res"]["n"] < e["len"]:
            cs2.parse(e["ep"], ty, fid, e["in"][:e["res"]["n"]], [cfg], wo=True, opts=o)
    if cs2.cases:
        ev += plans.execute(cs2, wdir)
    for e in sorted(ev, key=lambda e: e["id"]):
        e.pop("_cfgname", None)
        print("%-4d %-8s %-22r -> %s" % (e["id"], "partial" if e.get("partial") else "complete", bytes(e["in"]).decode("latin-1"), json.dumps(e["res"])))
    r = vlib.judge(ev, wdir, nshards=1)
    for m in r["mismatches"]:
        print("MISMATCH", m["prop"], m["why"], "event", m.get("id"))
    print("%d events, %d mismatches" % (len(ev), len(r["mismatches"])))


if __name__ == "__main__":
    main()
