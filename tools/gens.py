#!/usr/bin/env python3
"""Input constructions (inputs only -- no expectation is ever attached; TLC judges every event).

Exact integer arithmetic (Python ints) builds the hard cases the specification's definitions point
at: halfway points between adjacent floats and their perturbations, endpoint decimals, boundary
integers in every radix, fast-path limits, per-table-row significands.
"""
import random, struct


def samp(rng, pop, k):
    """rng.sample that never asks for more than there is"""
    pop = list(pop)
    return rng.sample(pop, max(0, min(k, len(pop))))

DIG = "0123456789ABCDEFGHIJKLMNOPQRSTUVWXYZ"

F64 = dict(p=53, emin=-1074, emax=971, name="f64", bits=64, mbits=52, ebits=11)
F32 = dict(p=24, emin=-149, emax=104, name="f32", bits=32, mbits=23, ebits=8)


def B(s):
    """bytes/str -> list of ints"""
    if isinstance(s, str):
        s = s.encode("latin-1")
    return list(s)


def to_radix(n, r):
    if n == 0:
        return "0"
    o = []
    while n:
        n, d = divmod(n, r)
        o.append(DIG[d])
    return "".join(reversed(o))


def float_bits(F, m, e):
    """canonical (m, e) -> hex bits string"""
    if m == 0:
        return "0"
    if m < (1 << (F["p"] - 1)):
        assert e == F["emin"]
        return "%x" % m
    ef = e - F["emin"] + 1
    return "%x" % ((ef << F["mbits"]) | (m - (1 << F["mbits"])))


def bits_to_me(F, bits):
    mf = bits & ((1 << F["mbits"]) - 1)
    ef = (bits >> F["mbits"]) & ((1 << F["ebits"]) - 1)
    if ef == 0:
        return mf, F["emin"]
    return mf | (1 << F["mbits"]), ef - 1 + F["emin"]


def exact_decimal(M, e):
    """M * 2^e as (digits string without trailing zeros, decimal exponent q): value = int(digits) * 10^q"""
    if M == 0:
        return "0", 0
    if e >= 0:
        n = M << e
        q = 0
    else:
        n = M * 5 ** (-e)
        q = e
    s = str(n)
    t = s.rstrip("0")
    return t, q + (len(s) - len(t))


def fmt_variants(rng, digits, q, few=False):
    """Different spellings of digits * 10^q (all denote the same number)."""
    out = []
    out.append("%se%d" % (digits, q))
    n = len(digits)
    # scientific d.ddd e x
    if n > 1:
        out.append("%s.%se%d" % (digits[0], digits[1:], q + n - 1))
    if few:
        return out[-1:]
    # positional when not absurdly long
    if -330 <= q <= 0 and n + q > 0:
        k = n + q
        out.append(digits[:k] + "." + (digits[k:] or "0"))
    elif -400 <= q < 0 and n + q <= 0:
        out.append("0." + "0" * (-(n + q)) + digits)
    elif 0 < q <= 330:
        out.append(digits + "0" * q)
    # leading zeros and a shifted point
    z = rng.choice([1, 2, 7, 30])
    out.append("0" * z + digits + "e" + str(q))
    sh = rng.choice([1, 3, 10, 25])
    if n > sh:
        out.append("%s.%sE%+d" % (digits[:n - sh], digits[n - sh:], q + sh))
    return out


def mantissa_patterns(F, rng, k=4):
    p = F["p"]
    lo = 1 << (p - 1)
    hi = (1 << p) - 1
    pats = [lo, hi, lo + 1, hi - 1, lo | (lo >> 1), int("10" * 32, 2) >> (64 - p) | lo, (hi >> 1) | lo]
    for _ in range(k):
        pats.append(rng.randrange(lo, hi + 1))
    return sorted(set(pats))


def halfway_inputs(F, rng, binades, pats_per=3, long_ok=True, variants=True):
    """Decimal strings at / next to the midpoint between adjacent floats."""
    out = []
    for e in binades:
        pats = mantissa_patterns(F, rng)
        if e == F["emin"]:
            pats = [1, 2, 3, (1 << (F["p"] - 1)) - 1, rng.randrange(1, 1 << (F["p"] - 1))] + pats[:2]
        for m in samp(rng, pats, min(pats_per, len(pats))):
            if e == F["emax"] and m == (1 << F["p"]) - 1:
                pass  # midpoint to "2^(emax+p)" is the overflow threshold: keep it
            ds, q = exact_decimal(2 * m + 1, e - 1)
            n = len(ds)
            if n > 60 and not long_ok:
                # keep only truncations
                for cut in (17, 19, 20, 21):
                    out.append(("%se%d" % (ds[:cut], q + n - cut), "halfway-trunc%d" % cut))
                continue
            forms = [ds]
            forms.append(str(int(ds) - 1).rjust(n, "0"))          # one unit below in the last place
            forms.append(str(int(ds) + 1))                          # one unit above in the last place (same digit count or one more)
            forms.append(ds + "0" * rng.choice([0, 1, 5]) + "1")   # strictly above
            cuts = [c for c in (17, 19, 20, 21, 767, 768, 769, 770) if c < n]
            for c in samp(rng, cuts, min(3, len(cuts))):
                forms.append(ds[:c])
                forms.append(ds[:c - 1] + str((int(ds[c - 1]) + 1) % 10))
            for fdig in forms:
                qq = q + (n - len(fdig)) if len(fdig) <= n else q - (len(fdig) - n)
                sp = fmt_variants(rng, fdig, qq, few=not variants or len(fdig) > 100)
                out.append((rng.choice(sp), "halfway"))
    return out


def sticky_placement_inputs(F, rng, n):
    """Exact ties (short integers exactly halfway between two floats) followed by zeros up to / beyond the
    big-integer digit limit (769 for f64, 114 for f32) and then ONE non-zero digit, placed in the integer
    part or in the fraction, with an exponent bringing the value back into range: the sticky digit must
    turn the tie into 'above'."""
    p = F["p"]
    lim = 769 if p == 53 else 114
    out = []
    for _ in range(n):
        e = rng.choice([1, 1, 2, 3, 5, 10, 30])
        m = rng.randrange(1 << (p - 1), 1 << p)
        ds = str((2 * m + 1) << (e - 1))            # exactly halfway, an integer
        for total in (lim - 2, lim - 1, lim, lim + 1, lim + 3, lim + 40):
            z = total - len(ds)
            if z < 0:
                continue
            for (ipart, fpart) in ((ds + "0" * z, "1"), (ds + "0" * z, "0" * rng.choice([1, 7]) + "1"),
                                   (ds + "0" * z + "1", ""), (ds + "0" * (z // 2), "0" * (z - z // 2) + "1"),
                                   (ds + "0" * z, "0"), (ds + "0" * z, "")):
                drop = len(ipart) - len(ds)
                s_ = ipart + ("." + fpart if fpart else "") + "e-%d" % drop
                out.append((s_, "sticky-placement"))
                if rng.random() < 0.3:
                    out.append(("-" + ipart + ("." + fpart if fpart else ""), "sticky-placement-huge"))
    return out


def tie_decimals(F, rng, per=6):
    """Short decimals w * 10^q that are EXACTLY halfway between two adjacent floats (the round-to-even window of the
    moderate path: q in about -4..23 for f64, -17..10 for f32) and their neighbours w-1, w+1."""
    p = F["p"]
    out = []
    qr = range(-6, 29) if p == 53 else range(-19, 13)
    for q in qr:
        if q >= 0:
            f5 = 5 ** q
            lo = -(-(1 << p) // f5)
            hi = ((1 << (p + 1)) - 1) // f5
            if hi < lo:
                continue
            for _ in range(per):
                w = rng.randrange(lo, hi + 1) | 1
                if not (lo <= w <= hi):
                    continue
                M = w * f5
                if M.bit_length() != p + 1:
                    continue
                sh = rng.choice([0, 0, 1, 3])              # the same tie in a higher binade: w * 2^sh
                ws = w << sh
                for d in (0, -1, 1):
                    out.append(("%de%d" % (ws + d, q), "exact-tie" if d == 0 else "tie-neighbour"))
                out.append(("%d.0e%d" % (ws, q), "exact-tie"))
        else:
            k = -q
            for _ in range(per):
                c = rng.randrange(1 << p, 1 << (p + 1)) | 1
                w = c * 5 ** k
                sh = rng.choice([0, 1, 2, 5])
                ws = w << sh
                for d in (0, -1, 1):
                    out.append(("%de%d" % (ws + d, q), "exact-tie" if d == 0 else "tie-neighbour"))
    return out


def lemire_row_inputs(F, rng, qs, per=2):
    """19/20-digit significands w such that w * 10^q straddles a rounding boundary within ~2^-63."""
    out = []
    p = F["p"]
    for q in qs:
        for _ in range(per):
            # pick a float whose value is about 10^(q+18.5)
            target = 10 ** (q + 18) * rng.randrange(10, 99) // 10 if q + 18 >= 0 else None
            if target is None:
                # value = t / 10^k
                k = -(q + 18)
                num = rng.randrange(10, 99)
                # float near num/10 * 10^-k : compute binary exponent
                from fractions import Fraction
                val = Fraction(num, 10 * 10 ** k)
            else:
                from fractions import Fraction
                val = Fraction(target)
            # binary exponent of val
            e2 = val.numerator.bit_length() - val.denominator.bit_length()
            e = e2 - p
            if e < F["emin"] or e > F["emax"]:
                continue
            m = int(val / Fraction(2) ** e) if e >= 0 else int(val * (1 << -e))
            while m >= (1 << p):
                m >>= 1
                e += 1
            while m < (1 << (p - 1)) and e > F["emin"]:
                m <<= 1
                e -= 1
            if m == 0:
                continue
            m |= rng.randrange(0, 1 << 20)
            m = min(m, (1 << p) - 1)
            # halfway above
            hM, hE = 2 * m + 1, e - 1
            from fractions import Fraction as Fr
            h = Fr(hM) * (Fr(2) ** hE)
            w = int(h / (Fr(10) ** q))
            for ww in (w, w + 1):
                if ww > 0:
                    out.append(("%de%d" % (ww, q), "lemire-row"))
    return out


def fastpath_boundary(F, rng):
    p = F["p"]
    out = []
    emax = 22 if p == 53 else 10
    ext = 15 if p == 53 else 7
    sigs = [(1 << p) - 1, 1 << p, (1 << p) + 1, (1 << p) + 2, (1 << (p + 1)) + 1, (1 << 64) - 1, 10 ** 19 - 1,
            (1 << p) - 2, 9007199254740993 if p == 53 else 16777217]
    for s in sigs:
        for e in list(range(-emax - 2, emax + ext + 3)):
            out.append(("%de%d" % (s, e), "fastpath"))
    for _ in range(60):
        s = rng.randrange(1, 1 << p) | 1
        e = rng.randrange(-emax - 1, emax + ext + 2)
        out.append(("%de%d" % (s, e), "fastpath"))
        out.append(("%d.0e%d" % (s, e), "fastpath"))
    return out


def edge_inputs(F, rng):
    out = []
    p = F["p"]
    # overflow threshold and neighbours
    ds, q = exact_decimal((1 << (p + 1)) - 1, F["emax"] - 1)
    for d in (ds, str(int(ds) - 1), ds + "1"):
        out.append(("%se%d" % (d, q - (len(d) - len(ds))), "overflow-edge"))
    # half the smallest subnormal
    ds, q = exact_decimal(1, F["emin"] - 1)
    for d in (ds, str(int(ds) - 1), ds + "1"):
        out.append(("%se%d" % (d, q - (len(d) - len(ds))), "underflow-edge"))
    for e in (308, 309, 310, 323, 324, 325, 400, 1000, 99999, 4294967296, 10 ** 25, 38, 39, 45, 46):
        for sgn in ("", "-"):
            out.append(("1e%s%d" % (sgn, e), "exp-edge"))
            out.append(("%s9.9999999999999999999e%d" % (sgn, e), "exp-edge"))
            out.append(("0.0000000000000000000000001e%s%d" % (sgn, e), "exp-edge"))
    out += [("0", "zero"), ("-0", "zero"), ("0.0", "zero"), ("-0.0e5", "zero"), ("+0e-999999999999", "zero"),
            ("0e99999999999999999999", "zero"), ("-.0", "zero"), ("0." + "0" * 400, "zero"),
            ("0." + "0" * 400 + "1", "tiny"), ("1" + "0" * 400, "huge"), ("1" + "0" * 400 + "e-400", "one"),
            ("0." + "0" * 340 + "1e341", "one"), ("1." + "0" * 800 + "1", "sticky"), ("1." + "0" * 1300 + "1", "sticky"),
            ("9007199254740993", "tie"), ("9007199254740992.9999999999999999", "tie"), ("9007199254740993.000000001", "tie"),
            ("8.55e21", "tie"), ("1e23", "classic"), ("2.2250738585072011e-308", "classic"),
            ("2.2250738585072012e-308", "classic"), ("4.9406564584124654e-324", "classic"),
            ("2.4703282292062327e-324", "classic"), ("2.4703282292062328e-324", "classic"),
            ("1.7976931348623157e308", "classic"), ("1.7976931348623158e308", "classic"),
            ("1.7976931348623159e308", "classic"), ("3.4028234664e38", "classic"), ("3.4028235677973366e38", "classic"),
            ("3.4028235677973367e38", "classic"), ("1.1754943508e-38", "classic"), ("7.0064923216240854e-46", "classic"),
            ("7.0064923216240853e-46", "classic"), ("105673842261508607196e-239", "compact-finding")]
    return out


def random_decimal(rng, n):
    out = []
    for _ in range(n):
        nd = rng.choice([1, 2, 5, 9, 15, 16, 17, 18, 19, 20, 21, 25, 30, 40])
        ds = str(rng.randrange(10 ** (nd - 1), 10 ** nd))
        q = rng.randrange(-345, 310) - nd if rng.random() < 0.8 else rng.randrange(-60, 40)
        sgn = rng.choice(["", "", "-", "+"])
        if rng.random() < 0.4:
            k = rng.randrange(0, nd + 1)
            s = "%s%s.%se%d" % (sgn, ds[:k], ds[k:], q)
        elif rng.random() < 0.5:
            s = "%s%se%d" % (sgn, ds, q)
        else:
            k = rng.randrange(0, nd + 1)
            s = "%s%s.%s" % (sgn, ds[:k], ds[k:])
        out.append((s, "random"))
    return out


def random_long_decimal(rng, n):
    out = []
    for _ in range(n):
        nd = rng.choice([100, 400, 767, 768, 769, 770, 800, 1500, 3000])
        ds = "".join(rng.choice("0123456789") for _ in range(nd))
        q = rng.randrange(-340, 300) - nd
        out.append(("%s.%se%d" % (ds[:1], ds[1:], q + nd - 1), "random-long"))
    return out


def zero_padded_decimal(rng, n):
    """more than 19 significant digits behind leading zeros (integer part and / or right after the point): the zeros must
    not eat the digit budget of the 64-bit mantissa register (S-C19-c)"""
    out = []
    for k in range(n):
        z = rng.choice([1, 2, 4, 7, 10, 18, 19, 20, 25])
        nd = rng.choice([20, 21, 25, 32, 40])
        ds = str(rng.randrange(1, 10)) + "".join(rng.choice("0123456789") for _ in range(nd - 1))
        q = rng.choice([0, 0, 3, -7, 20, -30, 280, -300])
        form = k % 4
        if form == 0:
            s = "0" * z + ds                                   # 000123...
        elif form == 1:
            cut = rng.randrange(1, nd)
            s = "0" * z + ds[:cut] + "." + ds[cut:]            # 000123.456...
        elif form == 2:
            s = "0." + "0" * z + ds                            # 0.000123...
        else:
            s = "0" * z + "." + "0" * rng.choice([0, 1, 5]) + ds   # 000.0123...
        out.append((s + ("e%d" % q if q else ""), "zero-padded-long"))
    return out


# ------------------------------------------------------------------------------------------------
# floats (bit patterns) for the writers

def float_values(F, rng, nrand=200, per_binade=1, binades=None):
    """list of (bits-hex, tag)"""
    out = []
    p = F["p"]
    nb = (1 << F["ebits"]) - 1
    allb = list(range(0, nb))
    binades = allb if binades is None else binades
    for ef in binades:
        base = ef << F["mbits"]
        out.append(("%x" % base, "mant0"))                      # shorter-interval float (or zero)
        out.append(("%x" % (base | ((1 << F["mbits"]) - 1)), "mantmax"))
        for _ in range(per_binade):
            out.append(("%x" % (base | rng.randrange(1 << F["mbits"])), "binade-random"))
    sign = 1 << (F["bits"] - 1)
    for k in range(nrand):
        # every third one negative: the longest outputs (sign + 17 digits + 3-digit negative exponent) need the sign
        out.append(("%x" % (rng.randrange(1 << (F["bits"] - 1)) | (sign if k % 3 == 2 else 0)), "random-bits"))
    specials = [0, sign, nb << F["mbits"], sign | (nb << F["mbits"]), (nb << F["mbits"]) | 1,
                sign | (nb << F["mbits"]) | (1 << (F["mbits"] - 1)), 1, sign | 1]
    for s in specials:
        out.append(("%x" % s, "special"))
    return out


def pyfloat_bits(F, x):
    if F["p"] == 53:
        return "%x" % struct.unpack("<Q", struct.pack("<d", x))[0]
    return "%x" % struct.unpack("<I", struct.pack("<f", x))[0]


def endpoint_family(F, rng, kmin, kmax, limit=None):
    """Decimals d * 10^k that are exactly the midpoint between two adjacent floats (k >= 0):
    d * 5^k odd with exactly p+1 bits.  Returns floats (both neighbours) as bit strings."""
    p = F["p"]
    out = []
    for k in range(kmin, kmax + 1):
        f5 = 5 ** k
        lo = -(-(1 << p) // f5)
        hi = ((1 << (p + 1)) - 1) // f5
        cands = [d for d in range(lo | 1, hi + 1, 2)] if hi - lo < 400000 else None
        if cands is None:
            cands = sorted({rng.randrange(lo, hi + 1) | 1 for _ in range(limit or 2000)})
            cands = [d for d in cands if lo <= d <= hi]
        elif limit and len(cands) > limit:
            cands = samp(rng, cands, limit)
        for d in cands:
            M = d * f5                     # odd, p+1 bits: midpoint = M * 2^(k-1)... value d*10^k = M * 2^k
            if M.bit_length() != p + 1 or M % 2 == 0:
                continue
            # neighbours: (M-1)/2 * 2^(k+1) and (M+1)/2 * 2^(k+1)
            for m in ((M - 1) // 2, (M + 1) // 2):
                e = k + 1
                mm, ee = m, e
                if mm >= (1 << p):
                    mm >>= 1
                    ee += 1
                if ee > F["emax"]:
                    continue
                out.append((float_bits(F, mm, ee), "endpoint-k%d" % k))
    return out


# ------------------------------------------------------------------------------------------------
# integers

INT_TYPES = {"u8": (8, False), "u16": (16, False), "u32": (32, False), "u64": (64, False), "u128": (128, False),
             "usize": (64, False), "i8": (8, True), "i16": (16, True), "i32": (32, True), "i64": (64, True),
             "i128": (128, True), "isize": (64, True)}


def int_range(ty):
    bits, signed = INT_TYPES[ty]
    if signed:
        return -(1 << (bits - 1)), (1 << (bits - 1)) - 1
    return 0, (1 << bits) - 1


def boundary_ints(ty, radix, rng, nrand=4):
    lo, hi = int_range(ty)
    vals = {0, 1, hi, hi - 1, lo, lo + 1, -1 if lo < 0 else 2}
    k = 1
    while radix ** k <= hi:
        for d in (-1, 0, 1):
            vals.add(radix ** k + d)
            if lo < 0:
                vals.add(-(radix ** k) + d)
        k += 1
    bits = INT_TYPES[ty][0]
    if bits == 128:
        vals |= {(1 << 64) - 1, 1 << 64, (1 << 64) + 1, radix ** 10 * ((1 << 64) + 7)}
    for _ in range(nrand):
        vals.add(rng.randrange(lo, hi + 1))
        vals.add(rng.randrange(lo, hi + 1) >> rng.randrange(0, bits))
    return sorted(v for v in vals if lo <= v <= hi)


def int_numeral(v, radix, lower=False):
    s = ("-" if v < 0 else "") + to_radix(abs(v), radix)
    return s.lower() if lower else s


# ------------------------------------------------------------------------------------------------
# non-decimal radices

from fractions import Fraction


def exp_str(q, xr):
    return ("-" if q < 0 else "") + to_radix(abs(q), xr)


def radix_near(F, r, m, e, nd, base=None, xr=None, above_mid=True):
    """Strings D^q (mantissa digits in radix r, value = D * base^q) just below / above the midpoint
    between m*2^e and its successor, with nd significant digits.  base defaults to r."""
    base = base or r
    xr = xr or r
    num = (2 * m + 1)
    s = e - 1                      # midpoint = num * 2^s
    # choose q (power of base) so that floor(mid / base^q) has about nd digits of radix r
    # log_r(mid) ~ (bitlen + s) * log_r(2)
    import math
    lg = (num.bit_length() + s) * math.log(2) / math.log(r)
    qdig = int(lg) - nd            # exponent in units of radix-r digits
    # base = r^t or r = base^t (mixed: both powers of two)
    lb = math.log(base) / math.log(r)
    q = int(math.floor(qdig / lb))
    # D = floor(num * 2^s / base^q)
    n_, d_ = num, 1
    if s >= 0:
        n_ <<= s
    else:
        d_ <<= -s
    if q >= 0:
        d_ *= base ** q
    else:
        n_ *= base ** (-q)
    D = n_ // d_
    exact = (n_ % d_ == 0)
    return D, q, exact


def underflow_boundary(F, r, base, xr, echar):
    """the bottom of the range: values around half of the smallest denormal (above half: rounds to it; the tie and below:
    zero), and around the smallest denormal and 1.5 times it, written with 2 / 20 / 45 digits (floor and ceiling)"""
    import math
    from fractions import Fraction
    out = []
    for (num, den) in ((1, 2), (3, 4), (5, 8), (1, 4), ((1 << 40) + 1, 1 << 41), ((1 << 40) - 1, 1 << 41), (9, 16), (1, 1), (3, 2),
                       ((1 << 70) + 1, 1 << 71)):
        V = Fraction(num, den) * Fraction(2) ** F["emin"]
        for nd in (2, 20, 45):
            q = int((math.log(num / den, 2) + F["emin"]) * math.log(2) / math.log(base)) - int(nd * math.log(r) / math.log(base)) - 1
            Dq = V / Fraction(base) ** q
            for D in {Dq.numerator // Dq.denominator, -(-Dq.numerator // Dq.denominator)}:
                if D > 0:
                    out.append(("%s%s%s" % (to_radix(D, r), echar, exp_str(q, xr)), "underflow-boundary"))
    return out


def radix_inputs(F, r, rng, nbin, base=None, xr=None, echar="^", long_frac=0.1):
    """list of (string, tag) in mantissa radix r / exponent base / exponent radix xr"""
    base = base or r
    xr = xr or r
    out = []
    allb = list(range(F["emin"], F["emax"] + 1))
    for e in samp(rng, allb, min(nbin, len(allb))):
        pats = mantissa_patterns(F, rng, k=2)
        if e == F["emin"]:
            pats = [1, 3, rng.randrange(1, 1 << (F["p"] - 1))]
        for m in samp(rng, pats, 2):
            for nd in samp(rng, [5, 12, 17, 22, 30, 45, 70, 140], 3):
                D, q, exact = radix_near(F, r, m, e, nd, base, xr)
                if D <= 0:
                    continue
                for dd in ((D, D + 1) if not exact else (D - 1, D, D + 1)):
                    ds = to_radix(dd, r)
                    if rng.random() < 0.5:
                        ds = ds.lower()
                    k = rng.randrange(0, len(ds))
                    # move the point k digits to the left: exponent changes only when base == r
                    if base == r and k and rng.random() < 0.6:
                        s = "%s.%s%s%s" % (ds[:len(ds) - k], ds[len(ds) - k:], echar, exp_str(q + k, xr))
                    else:
                        s = "%s%s%s" % (ds, echar, exp_str(q, xr))
                    out.append((s, "radix-halfway" if not exact else "radix-exact-halfway"))
    # exponent sweep (every power-table index), short mantissas
    import math
    lo = int(F["emin"] * math.log(2) / math.log(base)) - 25
    hi = int((F["emax"] + F["p"]) * math.log(2) / math.log(base)) + 3
    step = max(1, (hi - lo) // (nbin * 3))
    for q in range(lo, hi + 1, step):
        nd = rng.choice([1, 3, 8, 14, 20])
        ds = "".join(rng.choice(DIG[:r]) for _ in range(nd)).lstrip("0") or "1"
        out.append(("%s%s%s" % (ds, echar, exp_str(q, xr)), "radix-exp-sweep"))
    out += underflow_boundary(F, r, base, xr, echar)
    # positional forms and zeros
    for _ in range(6):
        a = "".join(rng.choice(DIG[:r]) for _ in range(rng.choice([1, 4, 9, 20])))
        b = "".join(rng.choice(DIG[:r]) for _ in range(rng.choice([1, 4, 9, 30])))
        out.append(("%s.%s" % (a, b), "radix-positional"))
    out += [("0", "zero"), ("-0.0", "zero"), ("1", "one"), ("10", "radix"), ("0.1", "inv-radix"),
            ("1%s%s" % (echar, exp_str(hi + 5, xr)), "overflow"), ("1%s%s" % (echar, exp_str(lo - 40, xr)), "underflow")]
    return out
