#!/bin/bash
# usage: tools/seedtest.sh <worktree-dir> <seed-id> <property> [check ...]
# 1. confirm in the scratch worktree: tests pass with the change, demo fails with / passes without
# 2. copy patch + demo + notes to seeded/<seed-id>/
# 3. apply the patch to /repo, run the given quick checks, undo the patch
set -u
WT=$1; ID=$2; PROP=$3; shift 3
OUT=/verif/seeded/$ID
mkdir -p $OUT
cd $WT || exit 2
git diff -- . ':!demo' ':!MUTATION.diff' ':!NOTES.md' > $OUT/patch.diff
[ -s $OUT/patch.diff ] || cp MUTATION.diff $OUT/patch.diff
echo "== suite with the change"
cargo test --workspace --offline > /tmp/seed_suite.log 2>&1; SUITE=$?
echo "suite rc=$SUITE"
DEMO_CMD=$(grep -m1 -E '^\s*(cd .*&& )?cargo (test|run)' demo/RUN.md | sed 's/^\s*//; s/`//g')
[ -z "$DEMO_CMD" ] && DEMO_CMD="cargo test --offline"
echo "== demo with the change: $DEMO_CMD"
(cd demo && timeout 600 bash -c "${DEMO_CMD#cd * && }" > /tmp/seed_demo_with.log 2>&1); WITH=$?
git stash -q -- $(git diff --name-only -- . ':!demo')
echo "== demo without the change"
(cd demo && timeout 600 bash -c "${DEMO_CMD#cd * && }" > /tmp/seed_demo_without.log 2>&1); WITHOUT=$?
git stash pop -q
echo "demo with=$WITH without=$WITHOUT"
rm -rf $OUT/demo; mkdir -p $OUT/demo; (cd demo && cargo clean >/dev/null 2>&1; tar cf - --exclude=target . ) | (cd $OUT/demo && tar xf -)
cp -f NOTES.md $OUT/NOTES.md 2>/dev/null
RES=""
if [ $SUITE -eq 0 ] && [ $WITH -ne 0 ] && [ $WITHOUT -eq 0 ]; then
  cd /verif
  git -C /repo apply $OUT/patch.diff || { echo "patch does not apply to /repo"; exit 2; }
  for c in "$@"; do
    python3 tools/run_check.py $c quick > /tmp/seed_check_$c.log 2>&1; rc=$?
    nv=$(grep -c "^VIOLATION property=$c" /tmp/seed_check_$c.log)
    echo "check $c rc=$rc violations=$nv"; grep "^VIOLATION" /tmp/seed_check_$c.log | head -2 | cut -c1-200
    RES="$RES $c:rc=$rc:viol=$nv"
  done
  git -C /repo checkout -- .
fi
python3 - "$ID" "$PROP" "$SUITE" "$WITH" "$WITHOUT" "$RES" "$DEMO_CMD" <<'PY'
import json,sys,os
id_,prop,suite,w,wo,res,cmd=sys.argv[1:8]
notes=open('/verif/seeded/%s/NOTES.md'%id_).read() if os.path.exists('/verif/seeded/%s/NOTES.md'%id_) else ''
meta={"id":id_,"breaks_property":prop,"source":"independent sub-agent given only the property text and a scratch worktree",
      "needs_to_manifest":notes[:1500],
      "confirmed":{"pinned_suite_with_change_rc":int(suite),"demo_cmd":cmd,"demo_with_change_rc":int(w),"demo_without_change_rc":int(wo)},
      "checks_run":[dict(zip(("check","rc","violations"),(x.split(':')[0],x.split(':')[1][3:],x.split(':')[2][5:]))) for x in res.split()]}
json.dump(meta,open('/verif/seeded/%s/meta.json'%id_,'w'),indent=1)
print(json.dumps(meta["confirmed"]), meta["checks_run"])
PY
