#!/usr/bin/env python3
"""Self-test of the binding (not a property check): apply small semantic mutations to /repo (one at a
time, always reverted), run the quick check of the property each one breaks, expect VIOLATION.
Also corrupts one field of a recorded trace and shows TLC reports exactly that line.

usage: selftest.py [--list] [--only ID,...] [--corrupt-only]
Every mutation compiles and leaves the pinned 223-test suite green (default features); they are the
catalogue of DESIGN.md section 5.6 made concrete.  Results are written to seeded/selftest-results.json."""
import json, os, subprocess, sys, time, re

ROOT = os.path.dirname(os.path.dirname(os.path.abspath(__file__)))
REPO = "/repo"

# id, property, check(s), file, old, new, what it needs to manifest
M = [
 ("M01", "C01", ["C01"], "lexical-parse-float/src/table_lemire.rs", None, None,
  "flip one low bit of the high word of one POWER_OF_FIVE_128 row: any >= 17-digit input with that decimal exponent"),
 ("M03", "C01", ["C01"], "lexical-parse-float/src/float.rs", "    const MIN_EXPONENT_ROUND_TO_EVEN: i32 = -4;\n    const MAX_EXPONENT_ROUND_TO_EVEN: i32 = 23;",
  "    const MIN_EXPONENT_ROUND_TO_EVEN: i32 = -4;\n    const MAX_EXPONENT_ROUND_TO_EVEN: i32 = 22;", "f64 short exact ties with decimal exponent 23 (round-to-even window)"),
 ("M04", "C01", ["C01", "C19"], "lexical-parse-float/src/float.rs", "    const MAX_MANTISSA_FAST_PATH: u64 = 2_u64 << Self::MANTISSA_SIZE;",
  "    const MAX_MANTISSA_FAST_PATH: u64 = 4_u64 << Self::MANTISSA_SIZE;", "significands between 2^53 and 2^54 with a fast-path exponent"),
 ("M05", "C01", ["C01"], "lexical-parse-float/src/limits.rs", "        10 => Some(769),", "        10 => Some(768),", "near-halfway inputs with exactly 769+ significant digits"),
 ("M06", "C01", ["C01"], "lexical-parse-float/src/parse.rs", "    if n_digits <= step {", "    if n_digits < step + 2 {", "mantissas with 20 digits (one more than fits)"),
 ("M08", "C02", ["C02"], "lexical-write-float/src/algorithm.rs", "        if r == 0 && !include_right && is_z_integer {", "        if r == 0 && include_right && is_z_integer {",
  "floats whose right interval endpoint is an integer multiple"),
 ("M09", "C03", ["C03"], "lexical-write-integer/src/digit_count.rs", "        while value >= radix {\n            digits += 1;", "        while value > radix {\n            digits += 1;", "exact odd powers of a generic radix: digit count one short"),
 ("M10", "C04", ["C04"], "lexical-parse-integer/src/algorithm.rs", "    let add = 0x46 + 10 - radix;\n    let add = add + (add << 8) + (add << 16) + (add << 24);\n    let add = (add as u64) | ((add as u64) << 32);",
  "    let add = 0x45 + 10 - radix;\n    let add = add + (add << 8) + (add << 16) + (add << 24);\n    let add = (add as u64) | ((add as u64) << 32);", "invalid byte ':' inside an 8-digit window, no_multi_digit = false"),
 ("M11", "C04", ["C04"], "lexical-parse-integer/src/algorithm.rs", "        into_error!(InvalidDigit, $index - 1)", "        into_error!(InvalidDigit, $index)", "any invalid digit: error index off by one"),
 ("M13", "C06", ["C06"], "lexical-write-float/src/binary.rs", "        fast_ceildiv(neg_sci_exp, bits_per_digit).wrapping_neg()", "        (neg_sci_exp / bits_per_digit).wrapping_neg()", "negative scientific exponents not divisible by the bits per digit (radix 4, 8, 16, 32)"),
 ("M15", "C08", ["C08", "C14"], "lexical-write-float/src/shared.rs", "    } else if cfg!(feature = \"format\") && format.required_exponent_sign() {\n        bytes[*cursor] = b'+';",
  "    } else if cfg!(feature = \"format\") && format.required_exponent_sign() && exp == 0 {\n        bytes[*cursor] = b'+';", "formats with required_exponent_sign and a positive exponent"),
 ("M16", "C09", ["C09"], "lexical-write-float/src/options.rs", "            count += max!(exp, exponent_size);", "            count += max!(exp, exponent_size) - 1;", "buffers of exactly buffer_size_const with extreme options"),
 ("M17", "C10", ["C10"], "lexical-util/src/iterator.rs", "        if Self::IS_CONTIGUOUS && self.as_slice().len() >= mem::size_of::<u64>() {", "        if Self::IS_CONTIGUOUS && self.as_slice().len() >= mem::size_of::<u64>() - 1 {", "7-byte inputs ending at a guard page"),
 ("M18", "C11", ["C11"], "lexical-parse-float/src/parse.rs", "    if count == length {\n        Ok(float)", "    if count == length || (count + 1 == length && length > 3) {\n        Ok(float)", "one trailing byte after an accepted float"),
 ("M19", "C12", ["C12"], "lexical-parse-float/src/parse.rs", "        if format.required_exponent_digits() && byte.current_count() - before == 0 {", "        if format.required_exponent_digits() && byte.current_count() - before == 0 && !is_negative_exponent {",
  "`1e-` : exponent sign without digits"),
 ("M21", "C14", ["C14"], "lexical-write-float/src/shared.rs", "        let is_above = to_round[2..].iter().any(|&x| x != b'0');", "        let is_above = to_round[1..].iter().any(|&x| x != b'0');", "exact ties ...50 with an even digit before"),
 ("M22", "C15", ["C15"], "lexical-util/src/num.rs", "        self.is_sign_negative() && !self.is_nan()", "        self.is_sign_negative()", "-NaN written with a sign"),
 ("M24", "C17", ["C17"], "lexical/src/lib.rs", "    let len = lexical_core::write(n, buf.as_mut_slice()).len();", "    let len = lexical_core::write(n, buf.as_mut_slice()).len().min(23);", "longest outputs through the facade"),
 ("M25", "C18", ["C18"], "lexical-util/src/feature_format.rs", "    } else if from_flag!(format, NO_SPECIAL) && from_flag!(format, CASE_SENSITIVE_SPECIAL) {\n        Error::InvalidSpecial\n    } else if from_flag!(format, NO_SPECIAL) && from_flag!(format, SPECIAL_DIGIT_SEPARATOR) {",
  "    } else if from_flag!(format, NO_SPECIAL) && from_flag!(format, SPECIAL_DIGIT_SEPARATOR) {", "the flag pair no_special + case_sensitive_special"),
 ("M26", "C19", ["C19"], "lexical-parse-float/src/lemire.rs", "    let mut fp = compute_float::<F>(num.exponent, num.mantissa, lossy);\n    if !lossy", "    let mut fp = compute_float::<F>(num.exponent, num.mantissa, lossy);\n    if lossy && num.many_digits && fp.exp > 0 {\n        fp.mant &= !3;\n    }\n    if !lossy", "lossy results up to 3 ulp off for inputs with more than 19 digits"),
 ("M27", "C16", ["C16", "C03"], "lexical-write-integer/src/compact.rs", "        while value >= radix {", "        while value > radix {", "compact integer writer: leading part equal to the radix written as one digit"),
 ("M28", "C13", ["C13"], "lexical-util/src/skip.rs", "        slc.get(prev).map_or(false, |&x| $self.is_digit(x)) &&\n            slc.get(next).map_or(false, |&x| $self.is_digit(x))\n    }};\n\n    (@first $self:ident) => {\n        is_i!(@first $self, $self.byte.index)",
  "        slc.get(prev).map_or(false, |&x| $self.is_digit(x)) ||\n            slc.get(next).map_or(false, |&x| $self.is_digit(x))\n    }};\n\n    (@first $self:ident) => {\n        is_i!(@first $self, $self.byte.index)", "internal-only separator formats: leading/trailing separators accepted"),
 ("M31", "C02", ["C02"], "lexical-write-float/src/table_dragonbox.rs", None, None, "one Dragonbox 128-bit power of five (5^20): floats whose decimal exponent selects that row"),
 ("M32", "C02", ["C02"], "lexical-write-float/src/table_grisu.rs", None, None, "one Grisu cached power (compact builds only)"),
 ("M33", "C03", ["C03"], "lexical-write-integer/src/table_decimal.rs", "b'4', b'6', b'4', b'7',", "b'4', b'6', b'4', b'1',", "decimal integers with the aligned digit pair 47"),
 ("M34", "C03", ["C03"], "lexical-util/src/div128.rs", "moderate_u128_divrem(n, 3909821048582988049, 200683792729517998822275406364627986707, 61)",
  "moderate_u128_divrem(n, 3909821048582988049, 200683792729517998822275406364627986706, 61)", "u128 values above 2^64 written in radix 7"),
 ("M35", "C04", ["C04"], "lexical-util/src/num.rs", "        if radix <= 16 {\n            mem::size_of::<Self>() * 2 - Self::IS_SIGNED as usize",
  "        if radix <= 17 {\n            mem::size_of::<Self>() * 2 - Self::IS_SIGNED as usize", "radix 17: two-digit u8 inputs above 255 parsed without an overflow check"),
 ("M29", "C05", ["C05"], "lexical-parse-float/src/table_bellerophon_radix.rs", None, None, "one large-power mantissa of radix 7"),
 ("M30", "C07", ["C07"], "lexical-write-float/src/radix.rs", "                            if idx < format.radix() {", "                            if idx <= format.radix() {", "runs of the top digit in generic radices (reverts the carry fix)"),
]


def sh(cmd, cwd=None, timeout=3600):
    return subprocess.run(cmd, shell=True, cwd=cwd, stdout=subprocess.PIPE, stderr=subprocess.STDOUT, text=True, timeout=timeout)


def custom(mid, src):
    """mutations that need a computed edit; returns new source or None"""
    if mid == "M01":
        m = list(re.finditer(r"\(0x([0-9a-f]{16}), 0x([0-9a-f]{16})\)", src))
        if len(m) < 400:
            m = list(re.finditer(r"0x([0-9A-Fa-f_]{16,19}),", src))
            if not m:
                return None
            t = m[len(m) // 3]
            v = int(t.group(1).replace("_", ""), 16) ^ 0x100
            return src[:t.start(1)] + ("%016x" % v) + src[t.end(1):]
        t = m[len(m) // 3]
        v = int(t.group(1), 16) ^ 0x100
        return src[:t.start(1)] + ("%016x" % v) + src[t.end(1):]
    if mid == "M10":
        return src.replace("    let add = 0x46 + 10 - radix;\n    let add = add + (add << 8) + (add << 16) + (add << 24);\n    let add = add + (add << 32);",
                           "    let add = 0x45 + 10 - radix;\n    let add = add + (add << 8) + (add << 16) + (add << 24);\n    let add = add + (add << 32);", 1) if "let add = add + (add << 32);" in src else None
    if mid == "M09":
        # radix 7 digit count: off by one at one power
        m = re.search(r"fn digit_count\(self, radix: u32\) -> usize \{", src)
        return None
    if mid == "M31":
        m = re.search(r"\(0x([0-9a-f]{16}), 0x[0-9a-f]{16}\), // 5\^20\n", src)
        if not m:
            return None
        v = int(m.group(1), 16) ^ (1 << 24)
        return src[:m.start(1)] + ("%016x" % v) + src[m.end(1):]
    if mid == "M32":
        m = re.search(r"0x([0-9a-f]{16}), // 10\^-28\n", src)
        if not m:
            return None
        v = int(m.group(1), 16) ^ (1 << 24)
        return src[:m.start(1)] + ("%016x" % v) + src[m.end(1):]
    if mid == "M29":
        m = re.search(r"const BASE7_LARGE_MANTISSA: \[u64; \d+\] = \[\n(.*?)\];", src, re.S)
        if not m:
            return None
        nums = list(re.finditer(r"\d{10,}", m.group(1)))
        t = nums[len(nums) // 2]
        v = int(t.group(0)) + (1 << 20)
        s0 = m.start(1)
        return src[:s0 + t.start()] + str(v) + src[s0 + t.end():]
    return None


def run_one(mid, prop, checks, path, old, new, needs):
    full = os.path.join(REPO, path)
    src = open(full).read()
    if old is not None and new is not None:
        if src.count(old) != 1:
            return {"id": mid, "status": "skipped", "why": "pattern not found exactly once"}
        mut = src.replace(old, new)
    else:
        mut = custom(mid, src)
        if mut is None or mut == src:
            return {"id": mid, "status": "skipped", "why": "no computed edit"}
    res = {"id": mid, "property": prop, "file": path, "needs": needs, "checks": []}
    try:
        open(full, "w").write(mut)
        res["diff"] = sh("git -C %s diff" % REPO).stdout[:3000]
        b = sh("cargo build --offline -p lexical-core --features radix,format 2>&1 | tail -3", cwd=REPO)
        if "error" in b.stdout:
            res["status"] = "does-not-compile"
            return res
        t = sh("cargo test --workspace --offline 2>&1 | grep -E 'test result|FAILED' | grep -c FAILED", cwd=REPO)
        res["suite_failed"] = int(t.stdout.strip() or 0)
        for c in checks:
            r = sh("python3 tools/run_check.py %s quick" % c, cwd=ROOT)
            nv = len([l for l in r.stdout.splitlines() if l.startswith("VIOLATION property=%s" % c)])
            res["checks"].append({"check": c, "rc": r.returncode, "violations": nv})
        res["status"] = "caught" if any(c["violations"] > 0 for c in res["checks"]) else "missed"
    finally:
        sh("git -C %s checkout -- ." % REPO)
    return res


NEG_MODELS = [("MC_Pipeline.tla", "MC_Pipeline_fast_exp.cfg", "Correct"), ("MC_Pipeline.tla", "MC_Pipeline_err_scale.cfg", "Correct"),
              ("MC_IntParse.tla", "MC_IntParse_bad.cfg", "StrategyIsExact"),
              ("MC_Bounds.tla", "MC_Bounds_bad.cfg", "Sufficient"),
              ("MC_IntWrite.tla", "MC_IntWrite_count_gt.cfg", "InBounds"), ("MC_IntWrite.tla", "MC_IntWrite_no_pad.cfg", "FilledExactly"),
              ("MC_IntWrite.tla", "MC_IntWrite_step_plus_1.cfg", "Canonical")]


def negative_models():
    """negative controls of the bounded models: each of these configurations must violate its invariant"""
    sys.path.insert(0, os.path.join(ROOT, "tools"))
    import vlib
    ok = True
    m = vlib.run_apalache("AP_Bounds.tla", "TooTight")
    print("negative control AP_Bounds.tla/TooTight (Apalache): %s" % ("UNEXPECTED: holds" if m["ok"] else "violated as expected"))
    ok = ok and not m["ok"]
    for (mod, cfg, inv) in NEG_MODELS:
        m = vlib.run_model(mod, cfg, workers=4, timeout=900)
        hit = (not m["ok"]) and ("Invariant %s is violated" % inv) in m["out"]
        print("negative control %s/%s: %s" % (mod, cfg, "violates %s as expected" % inv if hit else "UNEXPECTED: no violation"))
        ok = ok and hit
    return ok


def main():
    args = sys.argv[1:]
    if "--models" in args:
        return 0 if negative_models() else 1
    if "--list" in args:
        for m in M:
            print(m[0], m[1], m[3], "-", m[6])
        return 0
    only = None
    for i, a in enumerate(args):
        if a == "--only":
            only = set(args[i + 1].split(","))
    out = []
    outp = os.path.join(ROOT, "seeded", "selftest-results.json")
    if os.path.exists(outp):
        out = [r for r in json.load(open(outp)) if only and r["id"] not in only]
    for m in M:
        if only and m[0] not in only:
            continue
        t0 = time.time()
        r = run_one(*m)
        r["wall_s"] = round(time.time() - t0, 1)
        print(json.dumps({k: v for k, v in r.items() if k != "diff"}), flush=True)
        out.append(r)
        os.makedirs(os.path.dirname(outp), exist_ok=True)
        json.dump(sorted(out, key=lambda r: r["id"]), open(outp, "w"), indent=1)
    return 0


if __name__ == "__main__":
    sys.exit(main())
