#!/usr/bin/env python3
"""Per-transition witnesses of the grammar automaton: run spec/MC_Scan.tla under TLC (which also
checks its invariants) and collect the W lines.  Cached in work/ by a hash of the spec and catalogue."""
import hashlib, json, os, subprocess, sys, time
import vlib


def _hash():
    h = hashlib.sha1()
    for p in ("spec/Scan.tla", "spec/Format.tla", "spec/Chars.tla", "spec/MC_Scan.tla", "spec/MC_Scan.cfg", "harness/formats.json"):
        h.update(open(os.path.join(vlib.ROOT, p), "rb").read())
    return h.hexdigest()[:16]


def scan_witnesses():
    """returns (witnesses: list of dict(f, k, s), model-result dict)"""
    os.makedirs(vlib.WORK, exist_ok=True)
    cache = os.path.join(vlib.WORK, "witness-%s.json" % _hash())
    if os.path.exists(cache):
        d = json.load(open(cache))
        return d["w"], d["model"]
    t0 = time.time()
    rc, out = vlib.run_tlc("MC_Scan.tla", "MC_Scan.cfg", env={"FORMATS": vlib.FORMATS}, workers=8, timeout=1800, heap="6g")
    ok = rc == 0 and "No error has been found" in out
    states, trans = vlib.tlc_stats(out)
    w = []
    for line in out.splitlines():
        if line.startswith('<<"W", '):
            w.append(json.loads(json.loads(line[len('<<"W", '):-2])))
    if not ok and not ("is violated" in out):
        raise vlib.ToolError("MC_Scan failed:\n" + "\n".join(l for l in out.splitlines() if not l.startswith('<<"W"'))[-3000:])
    model = {"ok": ok, "states": states, "transitions": trans, "wall": time.time() - t0, "module": "MC_Scan.tla",
             "cfg": "MC_Scan.cfg", "out": "" if ok else "\n".join(l for l in out.splitlines() if not l.startswith('<<"W"'))[-6000:]}
    for old in os.listdir(vlib.WORK):
        if old.startswith("witness-") and old.endswith(".json"):
            os.unlink(os.path.join(vlib.WORK, old))
    json.dump({"w": w, "model": model}, open(cache, "w"))
    vlib.log("[model] MC_Scan: %d states, %d transitions, %d witnesses, ok=%s, %.1fs" % (states, trans, len(w), ok, model["wall"]))
    return w, model
