#!/usr/bin/env python3
"""Shared machinery of the checks: building workers from /repo's working tree, driving them,
sharding traces, running TLC as the judge, matching known findings, writing evidence.

The driver decides which inputs exist and which calls an episode contains; it never decides a
verdict.  Every verdict comes from TLC evaluating spec/Trace.tla (or a bounded model).
"""
import json, os, re, subprocess, sys, time, shutil, signal, random, hashlib
from concurrent.futures import ThreadPoolExecutor

ROOT = os.path.dirname(os.path.dirname(os.path.abspath(__file__)))
HARNESS = os.path.join(ROOT, "harness")
SPEC = os.path.join(ROOT, "spec")
WORK = os.path.join(ROOT, "work")
EVID = os.path.join(ROOT, "evidence")
FORMATS = os.path.join(HARNESS, "formats.json")
TLA_CP = "/opt/veriftools/tla/tla2tools.jar:/opt/veriftools/tla/CommunityModules-deps.jar"
NCPU = os.cpu_count() or 8

CONFIGS = {
    "default": ["std"],
    "compact": ["std", "compact"],
    "pow2": ["std", "pow2"],
    "radix": ["std", "radix"],
    "format": ["std", "format"],
    "rf": ["std", "radix", "format"],
    "crf": ["std", "compact", "radix", "format"],
    "cf": ["std", "compact", "format"],
    "nostd": [],
}


class ToolError(Exception):
    pass


def log(*a):
    print(*a, file=sys.stderr, flush=True)


# ------------------------------------------------------------------------------------------------
# building

def build_worker(cfg, profile="release"):
    """cargo build the worker for one configuration from /repo's current working tree."""
    feats = CONFIGS[cfg]
    tdir = os.path.join(HARNESS, "target", cfg)
    cmd = ["cargo", "build", "--offline", "--target-dir", tdir, "-p", "worker"]
    if profile == "release":
        cmd.append("--release")
    else:
        cmd += ["--profile", profile]
    if feats:
        cmd += ["--features", ",".join(feats)]
    env = dict(os.environ, CARGO_NET_OFFLINE="true")
    t0 = time.time()
    p = subprocess.run(cmd, cwd=HARNESS, env=env, stdout=subprocess.PIPE, stderr=subprocess.STDOUT, text=True)
    if p.returncode != 0:
        raise ToolError("cargo build failed for %s/%s:\n%s" % (cfg, profile, p.stdout[-4000:]))
    exe = os.path.join(tdir, profile, "worker")
    if not os.path.exists(exe):
        raise ToolError("worker binary missing: " + exe)
    log("[build] %s/%s %.1fs" % (cfg, profile, time.time() - t0))
    return exe


def build_all(cfgs, profile="release"):
    return {c: build_worker(c, profile) for c in cfgs}


def regen_catalogue():
    subprocess.run([sys.executable, os.path.join(ROOT, "tools", "harvest_docs.py")], check=True, stdout=subprocess.DEVNULL)
    subprocess.run([sys.executable, os.path.join(ROOT, "tools", "catalogue.py")], check=True, stdout=subprocess.DEVNULL)
    subprocess.run([sys.executable, os.path.join(ROOT, "tools", "gen_formats.py")], check=True, stdout=subprocess.DEVNULL)


def load_formats():
    return json.load(open(FORMATS))


# ------------------------------------------------------------------------------------------------
# driving workers

def _run_chunk(exe, cfgname, cases, wdir, tag, case_timeout):
    """Run one worker over `cases`; survive crashes: the case in flight becomes a fault/timeout
    event and the rest is resumed in a fresh process."""
    events = []
    pos = 0
    attempt = 0
    env = dict(os.environ, WORKER_CFG=cfgname, WORKER_CASE_TIMEOUT=str(case_timeout))
    while pos < len(cases):
        attempt += 1
        cin = os.path.join(wdir, "cases-%s-%d.ndjson" % (tag, attempt))
        cout = os.path.join(wdir, "events-%s-%d.ndjson" % (tag, attempt))
        with open(cin, "w") as f:
            for c in cases[pos:]:
                f.write(json.dumps(c, separators=(",", ":")) + "\n")
        with open(cin) as fi, open(cout, "w") as fo:
            p = subprocess.run([exe], stdin=fi, stdout=fo, stderr=subprocess.DEVNULL, env=env)
        got = []
        with open(cout) as f:
            for line in f:
                line = line.strip()
                if not line:
                    continue
                try:
                    got.append(json.loads(line))
                except ValueError:
                    break  # torn last line of a killed worker
        events.extend(got)
        pos += len(got)
        os.unlink(cin)
        os.unlink(cout)
        if p.returncode == 0:
            if pos < len(cases):
                raise ToolError("worker exited 0 but produced %d of %d events" % (pos, len(cases)))
            break
        if pos >= len(cases):
            break
        # the case at `pos` killed the worker
        c = dict(cases[pos])
        sig = -p.returncode if p.returncode < 0 else p.returncode
        kind = "timeout" if sig == signal.SIGALRM else "fault"
        c["res"] = {"k": kind, "signal": sig}
        c["cfg"] = cfgname
        c.setdefault("len", len(c.get("in", [])) if isinstance(c.get("in"), list) else 0)
        events.append(c)
        pos += 1
        if attempt > 2000:
            raise ToolError("worker keeps dying")
    return events


def run_cases(exe, cfgname, cases, wdir, par=None, case_timeout=20):
    """Run cases (list of dicts) through the worker, in parallel chunks; returns events in order."""
    if not cases:
        return []
    par = par or NCPU
    nchunk = max(1, min(par, len(cases) // 500 + 1))
    size = (len(cases) + nchunk - 1) // nchunk
    chunks = [cases[i:i + size] for i in range(0, len(cases), size)]
    os.makedirs(wdir, exist_ok=True)
    with ThreadPoolExecutor(max_workers=nchunk) as ex:
        futs = [ex.submit(_run_chunk, exe, cfgname, ch, wdir, "%s-%d" % (cfgname, i), case_timeout)
                for i, ch in enumerate(chunks)]
        out = []
        for f in futs:
            out.extend(f.result())
    return out


# ------------------------------------------------------------------------------------------------
# traces and TLC

def _denull(x):
    if x is None:
        return "none"
    if isinstance(x, dict):
        return {k: _denull(v) for k, v in x.items()}
    if isinstance(x, list):
        return [_denull(v) for v in x]
    return x


def write_shards(events, wdir, nshards, cost=None):
    """Sort by (ep, id), keep episodes together, balance shards by estimated cost."""
    events = sorted(events, key=lambda e: (e["ep"], e["id"]))
    eps = []
    cur = None
    for e in events:
        if cur is None or cur[0] != e["ep"]:
            cur = (e["ep"], [])
            eps.append(cur)
        cur[1].append(e)
    cost = cost or (lambda e: 1 + (len(e.get("in", [])) if isinstance(e.get("in"), list) else 0) / 40.0)
    nshards = max(1, min(nshards, len(eps)))
    bins = [[0.0, []] for _ in range(nshards)]
    order = sorted(eps, key=lambda g: -sum(cost(e) for e in g[1]))
    for g in order:
        b = min(bins, key=lambda b: b[0])
        b[0] += sum(cost(e) for e in g[1])
        b[1].append(g)
    shards = []
    for i, (_, gs) in enumerate(bins):
        gs.sort(key=lambda g: g[0])
        evs = [e for g in gs for e in g[1]]
        if not evs:
            continue
        path = os.path.join(wdir, "trace-%02d.ndjson" % i)
        with open(path, "w") as f:
            for e in evs:
                f.write(json.dumps(_denull(e), separators=(",", ":")) + "\n")
        shards.append((path, evs))
    return shards


def java_cmd(heap="3g"):
    return ["java", "-XX:+UseSerialGC", "-Xmx" + heap, "-Xss1g",
            "-Dtlc2.tool.queue.IStateQueue=StateDeque", "-cp", TLA_CP, "tlc2.TLC"]


_STATS = re.compile(r"(\d+) states generated, (\d+) distinct states found")


def run_tlc(module, cfg, env=None, workers=1, timeout=3600, metadir=None, extra=None, heap="3g", cwd=None):
    """Run TLC; returns (returncode, stdout).  Never raises on a TLC-level failure."""
    metadir = metadir or os.path.join(WORK, "tlc-meta-%d-%d" % (os.getpid(), random.randrange(1 << 30)))
    cmd = java_cmd(heap) + ["-workers", str(workers), "-metadir", metadir, "-cleanup", "-noGenerateSpecTE",
                            "-nowarning", "-config", cfg] + (extra or []) + [module]
    e = dict(os.environ)
    e.pop("JAVA_TOOL_OPTIONS", None)
    if env:
        e.update(env)
    try:
        p = subprocess.run(cmd, cwd=cwd or SPEC, env=e, stdout=subprocess.PIPE, stderr=subprocess.STDOUT, text=True,
                           timeout=timeout)
        rc, out = p.returncode, p.stdout
    except subprocess.TimeoutExpired as ex:
        rc, out = 124, (ex.stdout or b"").decode("utf-8", "replace") if isinstance(ex.stdout, bytes) else (ex.stdout or "")
    shutil.rmtree(metadir, ignore_errors=True)
    return rc, out


def tlc_stats(out):
    m = None
    for m in _STATS.finditer(out):
        pass
    if not m:
        return 0, 0
    return int(m.group(2)), int(m.group(1))     # distinct states, states generated (= transitions taken)


def judge_shard(path, nevents, timeout=3600, pow_hi=48, cfgfile="Trace.cfg"):
    env = {"TRACE": path, "FORMATS": FORMATS}
    t0 = time.time()
    rc, out = run_tlc("Trace.tla", cfgfile, env=env, workers=1, timeout=timeout)
    dt = time.time() - t0
    bad = None
    for line in out.splitlines():
        if line.startswith('<<"BAD", '):
            bad = json.loads(json.loads(line[len('<<"BAD", '):-2]))
    ok = rc == 0 and bad is not None and "Model checking completed. No error has been found." in out
    if not ok:
        raise ToolError("TLC failed on %s (rc=%s, %.0fs):\n%s" % (path, rc, dt, out[-3000:]))
    states, trans = tlc_stats(out)
    return {"bad": bad, "states": states, "transitions": trans, "wall": dt, "out": out}


def judge(events, wdir, nshards=None, timeout=3600):
    """Shard, run TLC on each shard in parallel, map mismatches back to events."""
    os.makedirs(wdir, exist_ok=True)
    nshards = nshards or NCPU
    shards = write_shards(events, wdir, nshards)
    res = {"mismatches": [], "states": 0, "transitions": 0, "events": len(events), "episodes": len({e["ep"] for e in events}),
           "shards": len(shards), "tlc_wall": 0.0}
    with ThreadPoolExecutor(max_workers=len(shards) or 1) as ex:
        futs = [(sh, ex.submit(judge_shard, sh[0], len(sh[1]), timeout)) for sh in shards]
        for (path, evs), fu in futs:
            r = fu.result()
            res["states"] += r["states"]
            res["transitions"] += r["transitions"]
            res["tlc_wall"] = max(res["tlc_wall"], r["wall"])
            for (line, prop, why) in r["bad"]:
                ev = evs[line - 1]
                res["mismatches"].append({"prop": prop, "why": why, "event": ev,
                                          "episode": [e for e in evs if e["ep"] == ev["ep"]]})
    return res


MODEL_ENV = {"FORMATS": FORMATS, "DOCS": os.path.join(HARNESS, "docs.ndjson")}


def run_model(module, cfg, workers=4, timeout=1800, extra=None, heap="4g"):
    """Run a bounded model; returns dict(states, transitions, wall, out); raises ToolError when TLC
    reports an error that is not an invariant violation; returns ok False on a violation."""
    t0 = time.time()
    rc, out = run_tlc(module, cfg, env=MODEL_ENV, workers=workers, timeout=timeout, extra=extra, heap=heap)
    states, trans = tlc_stats(out)
    ok = rc == 0 and "No error has been found" in out
    viol = "Invariant" in out and "is violated" in out
    if not ok and not viol:
        raise ToolError("TLC failed on %s/%s rc=%s:\n%s" % (module, cfg, rc, out[-3000:]))
    return {"ok": ok, "states": states, "transitions": trans, "wall": time.time() - t0, "out": out,
            "module": module, "cfg": cfg}


def run_apalache(module, inv, length=0, timeout=1200):
    """Symbolic check with Apalache (unbounded integers): Init => inv for --length=0.  Same result shape as run_model."""
    t0 = time.time()
    outdir = os.path.join(WORK, "apalache-%d-%d" % (os.getpid(), random.randrange(1 << 30)))
    cmd = ["apalache-mc", "check", "--length=%d" % length, "--inv=" + inv, "--out-dir=" + outdir, module]
    try:
        p = subprocess.run(cmd, cwd=SPEC, stdout=subprocess.PIPE, stderr=subprocess.STDOUT, text=True, timeout=timeout)
        rc, out = p.returncode, p.stdout
    except subprocess.TimeoutExpired:
        rc, out = 124, "timeout"
    shutil.rmtree(outdir, ignore_errors=True)
    ok = rc == 0 and "The outcome is: NoError" in out
    viol = "invariant 0 violated" in out or "The outcome is: Error" in out
    if not ok and not viol:
        raise ToolError("Apalache failed on %s inv=%s rc=%s:\n%s" % (module, inv, rc, out[-3000:]))
    return {"ok": ok, "states": 0, "transitions": 0, "wall": time.time() - t0, "out": out, "module": module,
            "cfg": "apalache --length=%d --inv=%s (symbolic, unbounded integers)" % (length, inv)}


# ------------------------------------------------------------------------------------------------
# known findings

def load_findings():
    p = os.path.join(ROOT, "known_findings.json")
    if not os.path.exists(p):
        return []
    return json.load(open(p)).get("findings", [])


def _get(ev, path):
    cur = ev
    for k in path.split("."):
        if isinstance(cur, dict) and k in cur:
            cur = cur[k]
        elif isinstance(cur, list) and k.lstrip("-").isdigit() and -len(cur) <= int(k) < len(cur):
            cur = cur[int(k)]
        else:
            return None
    return cur


def finding_matches(fd, prop, ev, fmts):
    if fd.get("status") != "open" or fd.get("property") != prop:
        return False
    m = fd.get("match", {})
    for k, want in m.get("eq", {}).items():
        if _get(ev, k) != want:
            return False
    for k, wants in m.get("in", {}).items():
        if _get(ev, k) not in wants:
            return False
    for k, (lo, hi) in m.get("range", {}).items():
        v = _get(ev, k)
        if not isinstance(v, (int, float)) or v < lo or v > hi:
            return False
    for tag in m.get("fmt_tags", []):
        f = fmts[ev.get("fmt", 0)] if isinstance(ev.get("fmt"), int) and ev.get("fmt") < len(fmts) else {}
        if tag not in f.get("tags", []):
            return False
    if m.get("cfg_endswith") and not str(ev.get("cfg", "")).endswith(m["cfg_endswith"]):
        return False
    if m.get("fmt_calls_any"):
        f = fmts[ev.get("fmt", 0)] if isinstance(ev.get("fmt"), int) and ev.get("fmt") < len(fmts) else {}
        if not any(c[0] in m["fmt_calls_any"] and c[1] for c in f.get("calls", [])):
            return False
    if m.get("out_lt1_positional"):
        # a written float below 1 in positional notation: [-]0<point>..., no exponent character
        out = (ev.get("res") or {}).get("out")
        o = ev.get("opts") or {}
        if not isinstance(out, list) or "point" not in o:
            return False
        body = out[1:] if out[:1] in ([45], [43]) else out
        if body[:2] != [48, o["point"]] or o.get("exp") in body[2:]:
            return False
    if m.get("in_letters_only"):
        b = ev.get("in")
        if not isinstance(b, list) or not b:
            return False
        body = b[1:] if b[0] in (43, 45) else b
        if not body or not all((65 <= c <= 90) or (97 <= c <= 122) for c in body):
            return False
    return True


# ------------------------------------------------------------------------------------------------
# reporting

def finish(prop, tier, seed, t0, result, models, samples, extra_cov=None, assumptions=None, level="model_checking"):
    """Print VIOLATION / KNOWN-FINDING lines, write evidence, return exit code."""
    fmts = load_formats()
    findings = load_findings()
    rdir = os.path.join(WORK, "replay")
    os.makedirs(rdir, exist_ok=True)
    nviol = 0
    known_hit = {}
    other = {}
    disputes = []
    drift = {}
    other_unmatched = {}
    model_viol = [m for m in models if not m["ok"]]
    for mm in result["mismatches"]:
        if mm["prop"] == "SPEC":
            disputes.append(mm)
            continue
        if mm["prop"] == "MODEL":
            drift[mm["why"]] = drift.get(mm["why"], 0) + 1
            continue
        if mm["prop"] != prop:
            other[mm["prop"]] = other.get(mm["prop"], 0) + 1
            # is it one of the recorded findings of that other property?  if not, keep one replay file per reason so that the
            # reader can check that the other property's own plan reaches this class (it must: this check only notes it)
            if not any(finding_matches(fd, mm["prop"], mm["event"], fmts) and
                       (not fd.get("match", {}).get("why") or fd["match"]["why"] in mm["why"]) for fd in findings):
                key = (mm["prop"], mm["why"][:60])
                if key not in other_unmatched:
                    h = hashlib.sha1(json.dumps(mm["event"], sort_keys=True).encode()).hexdigest()[:10]
                    path = os.path.join(rdir, "%s-seen-by-%s-%s.json" % (mm["prop"], prop, h))
                    with open(path, "w") as f:
                        json.dump({"property": mm["prop"], "why": mm["why"], "event": mm["event"], "episode": mm["episode"],
                                   "cases": [strip_case(e) for e in mm["episode"]]}, f)
                    other_unmatched[key] = [0, path]
                other_unmatched[key][0] += 1
            continue
        hit = None
        for fd in findings:
            if finding_matches(fd, prop, mm["event"], fmts) and (not fd.get("match", {}).get("why") or fd["match"]["why"] in mm["why"]):
                hit = fd
                break
        if hit:
            known_hit.setdefault(hit["id"], [hit, 0])[1] += 1
            continue
        nviol += 1
        if nviol <= 20:
            h = hashlib.sha1(json.dumps(mm["event"], sort_keys=True).encode()).hexdigest()[:10]
            path = os.path.join(rdir, "%s-%s.json" % (prop, h))
            with open(path, "w") as f:
                json.dump({"property": prop, "why": mm["why"], "event": mm["event"], "episode": mm["episode"],
                           "cases": [strip_case(e) for e in mm["episode"]]}, f)
            print("VIOLATION property=%s replay=%s  # %s" % (prop, path, mm["why"]), flush=True)
    for m in model_viol:
        nviol += 1
        path = os.path.join(rdir, "%s-model-%s.txt" % (prop, os.path.basename(m["cfg"])))
        with open(path, "w") as f:
            f.write(m["out"])
        print("VIOLATION property=%s replay=%s  # bounded model %s violates its invariant" % (prop, path, m["cfg"]), flush=True)
    for fid, (fd, cnt) in sorted(known_hit.items()):
        print("KNOWN-FINDING: property=%s %s (%s; %d events this run)" % (prop, fd["description"], fid, cnt), flush=True)
    for why, cnt in sorted(drift.items()):
        print("NOTE: model drift, not a violation: %s (%d events); the design-level models describe the formula, the trace clauses still judge the code" % (why, cnt), flush=True)
    for (p2, why), (cnt, path) in sorted(other_unmatched.items()):
        print("NOTE: %d event(s) contradict %s and match none of its recorded findings (%s); replay with: python3 tools/run_check.py %s --replay %s"
              % (cnt, p2, why, p2, path), flush=True)
    for p2, cnt in sorted(other.items()):
        print("NOTE: %d event(s) of this run also contradict %s (reported by that property's check)" % (cnt, p2), flush=True)
    cov = {
        "states": result["states"] + sum(m["states"] for m in models),
        "transitions": result["transitions"] + sum(m["transitions"] for m in models),
        "traces_validated_against_impl": result["episodes"],
        "samples": samples[:8],
        "judged_events": result["events"],
        "trace_shards": result["shards"],
        "bounded_models": [{"module": m["module"], "cfg": m["cfg"], "states": m["states"], "transitions": m["transitions"],
                            "ok": m["ok"], "wall_s": round(m["wall"], 1)} for m in models],
        "known_findings_hit": {k: v[1] for k, v in known_hit.items()},
        "other_property_mismatches": other,
        "model_drift_notes": drift,
        "other_property_mismatches_not_among_recorded_findings": {"%s: %s" % k: v[0] for k, v in other_unmatched.items()},
        "exhaustive": False,
    }
    if extra_cov:
        cov.update(extra_cov)
    ev = {"property_id": prop, "tier": tier, "seed": seed, "level": level, "coverage": cov,
          "assumptions": assumptions or [], "wall_s": round(time.time() - t0, 1), "violations": nviol}
    os.makedirs(EVID, exist_ok=True)
    with open(os.path.join(EVID, prop + ".json"), "w") as f:
        json.dump(ev, f, indent=1)
    if disputes:
        for d in disputes[:5]:
            log("SPEC-DISPUTE: %s :: %s" % (d["why"], json.dumps(strip_case(d["event"]))[:400]))
        log("tool error: the specification is disputed by Rust std on %d event(s); no verdict" % len(disputes))
        return 2
    return 1 if nviol else 0


CASE_KEYS = ("id", "ep", "op", "ty", "fmt", "partial", "api", "place", "in", "wo", "opts", "val", "buflen", "std",
             "back", "exact", "calls", "kind", "each", "fastpath", "cfgs")


def strip_case(ev):
    c = {k: ev[k] for k in CASE_KEYS if k in ev}
    if "cfg" in ev:
        c["cfg"] = ev["cfg"]
    if isinstance(c.get("buflen"), int) and isinstance(ev.get("case_buflen"), (dict, int)):
        c["buflen"] = ev["case_buflen"]
    return c
