#!/usr/bin/env python3
"""Binding / vacuity self-test (not a property check).

Records a small trace of real API calls (one episode per scenario), checks with TLC that the
specification accepts it, then corrupts ONE recorded field per scenario -- always to a value the
implementation really produced for a different call, so the event stays well-formed -- and checks
that TLC rejects exactly the corrupted episodes, each under the property whose contract or episode
relation is supposed to see it.  A relation whose antecedent never matches the recorded field names
(a vacuous relation) shows up here as 'NOT DETECTED'.

usage: bindtest.py        exit 0 when every scenario behaves as expected, 1 otherwise
Results: seeded/bindtest-results.json"""
import copy, json, os, sys, time
sys.path.insert(0, os.path.dirname(os.path.abspath(__file__)))
import vlib, plans, gens
from plans import pf, wf, PI_DEFAULT

F64 = gens.F64
B = lambda s: list(s.encode("latin-1"))


def bits(x):
    return gens.pyfloat_bits(F64, x)


def fid(name):
    return plans.fmt_id(name)


class Scn:
    def __init__(self, name, prop, build, corrupt, phase2=None):
        self.name, self.prop, self.build, self.corrupt, self.phase2 = name, prop, build, corrupt, phase2
        self.ep = None


def find(evs, **kw):
    for e in evs:
        if all((e.get(k) == v) for k, v in kw.items()):
            return e
    raise KeyError(kw)


def scenarios():
    S = []
    RF = ["rf"]

    def add(name, prop, build, corrupt, phase2=None):
        S.append(Scn(name, prop, build, corrupt, phase2))

    # ---- per-call contracts -------------------------------------------------------------------------------------
    def b(cs, ep):
        cs.parse(ep, "f64", 0, B("0.1"), RF, role="t")
        cs.parse(ep + 1000, "f64", 0, B("0.10000000000000002"), RF, role="donor")
    add("parse f64 value (next float up)", "C01", b, lambda t, d: t["res"].update(v=d["res"]["v"]))

    def b(cs, ep):
        cs.parse(ep, "i32", 0, B("123"), RF, role="t")
        cs.parse(ep + 1000, "i32", 0, B("124"), RF, role="donor")
    add("parse i32 value", "C04", b, lambda t, d: t["res"].update(v=d["res"]["v"]))

    def b(cs, ep):
        cs.parse(ep, "u8", 0, B("256"), RF, role="t")
        cs.parse(ep + 1000, "u8", 0, B("25"), RF, role="donor")
    add("parse u8 overflow reported as a value", "C04", b, lambda t, d: t.update(res=dict(d["res"], n=3)))

    def b(cs, ep):
        cs.write(ep, "i32", 0, "123", RF, role="t")
        cs.write(ep + 1000, "i32", 0, "124", RF, role="donor")
    add("write i32 digits", "C03", b, lambda t, d: t["res"].update(out=d["res"]["out"]))

    def b(cs, ep):
        cs.write(ep, "f64", 0, bits(0.3), RF, role="t")
        cs.write(ep + 1000, "f64", 0, "%x" % (int(bits(0.3), 16) + 1), RF, role="donor")
    add("write f64 digits (neighbour's digits)", "C02", b, lambda t, d: t["res"].update(out=d["res"]["out"]))

    def b(cs, ep):
        cs.write(ep, "f64", 0, bits(0.3), RF, role="t")
    add("write f64 not shortest", "C02", b, lambda t, d: t["res"].update(out=B("0.29999999999999999")))

    r3 = plans.radix_fmt(3)
    def b(cs, ep):
        cs.parse(ep, "f64", r3, B("0.1"), RF, wo=True, opts=pf(), role="t")
        cs.parse(ep + 1000, "f64", r3, B("0.2"), RF, wo=True, opts=pf(), role="donor")
    add("parse radix-3 f64 value", "C05", b, lambda t, d: t["res"].update(v=d["res"]["v"]))

    r2 = plans.radix_fmt(2)
    def b(cs, ep):
        cs.write(ep, "f64", r2, bits(1.5), RF, wo=True, opts=wf(), role="t")
        cs.write(ep + 1000, "f64", r2, bits(1.25), RF, wo=True, opts=wf(), role="donor")
    add("write radix-2 f64 digits", "C06", b, lambda t, d: t["res"].update(out=d["res"]["out"]))

    def b(cs, ep):
        cs.write(ep, "f64", r3, bits(4.0), RF, wo=True, opts=wf(), role="t")
        cs.write(ep + 1000, "f64", r3, bits(5.0), RF, wo=True, opts=wf(), role="donor")
    add("write radix-3 small integer", "C07", b, lambda t, d: t["res"].update(out=d["res"]["out"]))

    def b(cs, ep):
        cs.write(ep, "f64", 0, bits(1.5), RF, buflen=64, role="t")
    add("write: canary overwritten", "C09", b, lambda t, d: t["res"].update(canary=False))
    add("write: panic with the documented buffer", "C09", b, lambda t, d: t.update(res={"k": "panic", "msg": "index out of bounds"}))

    def b(cs, ep):
        cs.write(ep, "f64", 0, bits(1.5), RF, wo=True, opts=wf(min=300, neg=-300), role="t")
    add("write: reported buffer bound one byte short", "C09", b, lambda t, d: t["bound"].update(bsc=t["bound"]["bsc"] - 1))

    def b(cs, ep):
        cs.parse(ep, "f64", 0, B("1e5x"), RF, role="t")
    add("parse: panic", "C10", b, lambda t, d: t.update(res={"k": "panic", "msg": "boom"}))
    add("parse: fault", "C10", b, lambda t, d: t.update(res={"k": "signal", "sig": 11}))
    add("parse: error index beyond the input", "C10", b, lambda t, d: t["res"].update(idx=9))

    def b(cs, ep):
        cs.parse(ep, "f64", 0, B("1e"), RF, role="t")
        cs.parse(ep + 1000, "f64", 0, B("1"), RF, role="donor")
    add("grammar: '1e' accepted", "C12", b, lambda t, d: t.update(res=dict(d["res"], n=2)))

    def b(cs, ep):
        cs.parse(ep, "f64", 0, B("1.5"), RF, role="t")
        cs.parse(ep + 1000, "f64", 0, B("1.5x"), RF, role="donor")
    add("grammar: '1.5' rejected", "C12", b, lambda t, d: t.update(res=d["res"]))

    sepi = fid("sep_all_i")
    def b(cs, ep):
        cs.parse(ep, "f64", sepi, B("1_2.5"), RF, wo=True, opts=pf(), role="t")
        cs.parse(ep + 1000, "f64", sepi, B("13.5"), RF, wo=True, opts=pf(), role="donor")
    add("separator changes the value", "C13", b, lambda t, d: t["res"].update(v=d["res"]["v"]))

    def b(cs, ep):
        cs.parse(ep, "f64", sepi, B("_12.5"), RF, wo=True, opts=pf(), role="t")
        cs.parse(ep + 1000, "f64", sepi, B("12.5"), RF, wo=True, opts=pf(), role="donor")
    add("leading separator accepted by an internal-only format", "C13", b, lambda t, d: t.update(res=dict(d["res"], n=5)))

    def b(cs, ep):
        cs.write(ep, "f64", 0, bits(1.2345), RF, wo=True, opts=wf(max=3), role="t")
    add("max_significant_digits exceeded", "C14", b, lambda t, d: t["res"].update(out=B("1.2345")))

    def b(cs, ep):
        cs.write(ep, "f64", 0, bits(1.5e10), RF, wo=True, opts=wf(), role="t")
    add("positional notation beyond the break", "C14", b, lambda t, d: t["res"].update(out=B("15000000000.0")))

    def b(cs, ep):
        cs.write(ep, "f64", 0, "7ff8000000000000", RF, role="t")
    add("NaN written with a sign", "C15", b, lambda t, d: t["res"].update(out=B("-NaN")))

    def b(cs, ep):
        cs.write(ep, "f64", 0, "8000000000000000", RF, role="t")
    add("negative zero written without its sign", "C15", b, lambda t, d: t["res"].update(out=B("0.0")))

    def b(cs, ep):
        cs.parse(ep, "f64", 0, B("nan"), RF, role="t")
        cs.parse(ep + 1000, "f64", 0, B("1"), RF, role="donor")
    add("'nan' parsed as a number", "C15", b, lambda t, d: t.update(res=dict(d["res"], n=3)))

    def b(cs, ep):
        cs.write(ep, "f64", 0, bits(1.5), RF, role="t")
    add("non-ASCII byte written", "C17", b, lambda t, d: t["res"].update(out=[49, 0xb7, 53]))

    def b(cs, ep):
        cs.add({"ep": ep, "op": "fmtinfo", "fmt": fid("syn_no_special"), "api": "core", "wo": False, "role": "t"}, RF)
    add("format_is_valid flipped", "C18", b, lambda t, d: t["res"].update(valid=not t["res"]["valid"]))

    def b(cs, ep):
        o2 = {"max": 0, "min": 0, "pos": 9, "neg": -5, "round": "round", "trim": False, "exp": 101, "point": 46,
              "nan": plans.ostr("NaN"), "inf": plans.ostr("inf")}
        cs.add({"ep": ep, "op": "options", "kind": "write_float", "opts": o2, "api": "core", "wo": True, "role": "t"}, RF)
    add("valid write options reported invalid", "C18", b, lambda t, d: t["res"].update(valid=False, build="err", strict=False))

    def b(cs, ep):
        cs.add({"ep": ep, "op": "builder", "calls": [["required_exponent_sign", True]], "api": "core", "wo": False, "role": "t"}, RF)
    add("builder getter does not reflect the setter", "C18", b, lambda t, d: t["res"]["get"].update(required_exponent_sign=False))

    # ---- episode relations ---------------------------------------------------------------------------------------
    def b(cs, ep):
        cs.parse(ep, "i32", 0, B("12ab"), RF, partial=True, role="t")
        cs.parse(ep, "i32", 0, B("12ab"), RF)
        cs.parse(ep, "i32", 0, B("12"), RF)
        cs.parse(ep, "i32", 0, B("1"), RF)
    add("partial count differs from the complete parser", "C11", b, lambda t, d: t["res"].update(n=1))

    def b(cs, ep):
        cs.parse(ep, "f64", 0, B("2.5e3zz"), RF, partial=True, role="t")
        cs.parse(ep, "f64", 0, B("2.5e3"), RF)
        cs.parse(ep + 1000, "f64", 0, B("2.5e4"), RF, role="donor")
    add("partial value differs from the complete parser on the prefix", "C11", b, lambda t, d: t["res"].update(v=d["res"]["v"]))

    def b(cs, ep):
        cs.write(ep, "i32", 0, "-123", ["default", "rf"], role="t")
        cs.write(ep + 1000, "i32", 0, "-124", ["default"], role="donor")
    add("build configurations give different integers", "C16", b, lambda t, d: t["res"].update(out=d["res"]["out"]))

    def b(cs, ep):
        cs.parse(ep, "f64", 0, B("1e23"), ["default", "compact"], role="t")
        cs.parse(ep + 1000, "f64", 0, B("1.0000000000000001e23"), ["default"], role="donor")
    add("build configurations give different floats", "C16", b, lambda t, d: t["res"].update(v=d["res"]["v"]))

    def b(cs, ep):
        cs.write(ep, "f64", 0, bits(-1.2345678901234567e-100), RF)
        cs.write(ep, "f64", 0, bits(-1.2345678901234567e-100), RF, api="facade", role="t")
    add("facade write truncated", "C17", b, lambda t, d: t["res"].update(out=t["res"]["out"][:23]))

    def b(cs, ep):
        cs.write(ep, "u64", 0, "18446744073709551615", RF)
        cs.write(ep, "u64", 0, "18446744073709551615", RF, api="facade", role="t")
    add("facade integer write differs", "C17", b, lambda t, d: t["res"].update(out=t["res"]["out"][:-1]))

    def b(cs, ep):
        cs.parse(ep, "f64", 0, B("2.5"), RF)
        cs.parse(ep, "f64", 0, B("2.5"), RF, api="facade", role="t")
        cs.parse(ep + 1000, "f64", 0, B("3.5"), RF, role="donor")
    add("facade parse differs", "C17", b, lambda t, d: t["res"].update(v=d["res"]["v"]))

    def b(cs, ep):
        cs.write(ep, "f64", 0, bits(0.3), RF, wo=True, opts=wf(), want_back=True)
        cs.parse(ep + 1000, "f64", 0, B("0.30000000000000004"), RF, role="donor")
    def p2(events, cs2, ep):
        plans.add_back([e for e in events if e["ep"] == ep], cs2)
    add("written bytes parse back to another value", "C08", b,
        lambda t, d: t["res"].update(v=d["res"]["v"]), phase2=p2)

    def b(cs, ep):
        s = B("1.23456789012345678901234e5")
        cs.parse(ep, "f64", 0, s, RF, wo=True, opts=pf())
        cs.parse(ep, "f64", 0, s, RF, wo=True, opts=pf(lossy=True), role="t")
        cs.parse(ep + 1000, "f64", 0, B("1.2345678901234570e5"), RF, role="donor")
    add("lossy result more than one ulp away", "C19", b, lambda t, d: t["res"].update(v=d["res"]["v"]))

    def b(cs, ep):
        s = B("1.5x")
        cs.parse(ep, "f64", 0, s, RF, wo=True, opts=pf())
        cs.parse(ep, "f64", 0, s, RF, wo=True, opts=pf(lossy=True), role="t")
    add("lossy changes the error index", "C19", b, lambda t, d: t["res"].update(idx=2))

    def b(cs, ep):
        cs.parse(ep, "f64", sepi, B("12.5"), RF, wo=True, opts=pf(), role="t")
        cs.parse(ep, "f64", 0, B("12.5"), RF, wo=True, opts=pf())
        cs.parse(ep + 1000, "f64", sepi, B("12.25"), RF, wo=True, opts=pf(), role="donor")
    add("separator-free input differs under the separator format", "C13", b, lambda t, d: t["res"].update(v=d["res"]["v"]))

    def b(cs, ep):
        v = bits(1.2345)
        cs.write(ep, "f64", 0, v, RF, wo=True, opts=wf())
        cs.write(ep, "f64", 0, v, RF, wo=True, opts=wf(max=3), role="t")
    add("digits are not the default digits rounded", "C14", b, lambda t, d: t["res"].update(out=B("1.24")))

    def b(cs, ep):
        v = bits(12.0)
        cs.write(ep, "f64", 0, v, RF, wo=True, opts=wf())
        cs.write(ep, "f64", 0, v, RF, wo=True, opts=wf(trim=True), role="t")
    add("trim_floats removed more than '.0'", "C14", b, lambda t, d: t["res"].update(out=B("1")))
    return S


def main():
    t0 = time.time()
    S = scenarios()
    cs = plans.Cases()
    for i, s in enumerate(S):
        s.ep = i + 1
        s.build(cs, s.ep)
    wdir = os.path.join(vlib.WORK, "bindtest-%d" % os.getpid())
    os.makedirs(wdir, exist_ok=True)
    vlib.regen_catalogue()
    ev = plans.execute(cs, wdir)
    cs2 = plans.Cases()
    cs2.nid = cs.nid
    for s in S:
        if s.phase2:
            s.phase2(ev, cs2, s.ep)
    if cs2.cases:
        ev += plans.execute(cs2, wdir)
    for e in ev:
        e.pop("_cfgname", None)
    base = [e for e in ev if e["ep"] < 1000]
    # corrupted copies: episode ep -> 5000 + ep, ids shifted
    off = max(e["id"] for e in ev) + 1
    corrupted = []
    for s in S:
        epi = copy.deepcopy([e for e in ev if e["ep"] == s.ep])
        donors = [e for e in ev if e["ep"] == s.ep + 1000 and e.get("role") == "donor"]
        back = {}
        for e in epi:
            back[e["id"]] = e["id"] + off
        for e in epi:
            e["id"] += off
            e["ep"] = 5000 + s.ep
            if "back" in e:
                e["back"] = back.get(e["back"], e["back"])
        if s.prop == "C08":
            tg = [e for e in epi if e.get("tag") == "parse-back" or "back" in e]
        else:
            tg = [e for e in epi if e.get("role") == "t"]
        if not tg:
            print("scenario %r has no target event" % s.name)
            return 2
        t = tg[-1] if s.prop == "C16" else tg[0]
        s.corrupt(t, copy.deepcopy(donors[0]) if donors else None)
        s.target = t["id"]
        off += len(epi) + 1
        corrupted += epi
    r = vlib.judge(base + corrupted, wdir, nshards=4)
    by_ep = {}
    for m in r["mismatches"]:
        by_ep.setdefault(m["event"]["ep"], []).append(m)
    ok = True
    rows = []
    for s in S:
        clean = [m for m in by_ep.get(s.ep, []) if m["prop"] != "SPEC"]
        hits = by_ep.get(5000 + s.ep, [])
        good = [m for m in hits if m["prop"] == s.prop]
        status = "detected" if good and not clean else ("BASE-NOT-CLEAN" if clean else "NOT DETECTED")
        ok = ok and status == "detected"
        rows.append({"scenario": s.name, "property": s.prop, "status": status,
                     "reported": sorted({"%s: %s" % (m["prop"], m["why"]) for m in hits}),
                     "base_mismatches": sorted({"%s: %s" % (m["prop"], m["why"]) for m in clean})})
        print("%-14s %-4s %-62s %s" % (status, s.prop, s.name, "; ".join(sorted({m["why"] for m in good}))[:110]))
        if status != "detected":
            print("      reported:", rows[-1]["reported"], "base:", rows[-1]["base_mismatches"])
    out = os.path.join(vlib.ROOT, "seeded", "bindtest-results.json")
    json.dump({"scenarios": rows, "events": len(base) + len(corrupted), "wall_s": round(time.time() - t0, 1)}, open(out, "w"), indent=1)
    print("%d scenarios, %s, %.0fs" % (len(S), "all corruptions detected, uncorrupted trace accepted" if ok else "PROBLEMS", time.time() - t0))
    import shutil
    shutil.rmtree(wdir, ignore_errors=True)
    return 0 if ok else 1


if __name__ == "__main__":
    sys.exit(main())
