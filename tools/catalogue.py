#!/usr/bin/env python3
"""Format catalogue: the list of compile-time number formats the worker is built with.

Each entry: id, name, calls (public NumberFormatBuilder setter sequence), req (lexical features
the format needs to be meaningful), types (all | core | float).  The *meaning* of a format is
never computed here: TLC derives the format record from `calls` with spec/Builder.tla, and the
worker reports what the real builder/NumberFormat says (op fmtinfo), which TLC compares.
IDs are positions in the list, so entries are only ever appended.
"""
import json, os, sys, itertools

def build():
    F = []
    def add(name, calls, req=(), types="core", tags=()):
        F.append({"id": len(F), "name": name, "calls": [list(c) for c in calls],
                  "req": sorted(set(req)), "types": types, "tags": list(tags)})
    add("STANDARD", [], types="all", tags=["std"])
    # radix family (C03-C07)
    for r in range(2, 37):
        if r == 10:
            continue
        req = ["pow2"] if r in (2, 4, 8, 16, 32) else ["radix"]
        add("radix%d" % r, [("from_radix", r)], req=req, types="all", tags=["radix"])
    # mixed mantissa radix / exponent base pairs, exponent digits in radix 10 or in the base
    for (r, b) in ((4, 2), (8, 2), (16, 2), (32, 2), (16, 4)):
        for xr in (10, b, r):
            add("mixed%d_%d_x%d" % (r, b, xr),
                [("mantissa_radix", r), ("exponent_base", b), ("exponent_radix", xr)],
                req=["pow2"], types="float", tags=["mixed"])
    # decimal mantissa sign flags usable without `format`?  (flags need `format`)
    return F

if __name__ == "__main__":
    out = sys.argv[1] if len(sys.argv) > 1 else os.path.join(os.path.dirname(__file__), "..", "harness", "formats.json")
    F = build()
    with open(out, "w") as f:
        json.dump(F, f, indent=0)
    print("catalogue: %d formats -> %s" % (len(F), out))
