#!/usr/bin/env python3
"""Format catalogue: the list of compile-time number formats the worker is built with.

Each entry: id, name, calls (public NumberFormatBuilder setter sequence), req (lexical features
the format needs to be meaningful), types (all | core | float).  The *meaning* of a format is
never computed here: TLC derives the format record from `calls` with spec/Builder.tla, and the
worker reports what the real builder/NumberFormat says (op fmtinfo), which TLC compares.
IDs are positions in the list, so entries are only ever appended.
"""
import json, os, sys, itertools

def build():
    F = []
    def add(name, calls, req=(), types="core", tags=()):
        F.append({"id": len(F), "name": name, "calls": [list(c) for c in calls],
                  "req": sorted(set(req)), "types": types, "tags": list(tags)})
    add("STANDARD", [], types="all", tags=["std"])
    # radix family (C03-C07)
    for r in range(2, 37):
        if r == 10:
            continue
        req = ["pow2"] if r in (2, 4, 8, 16, 32) else ["radix"]
        add("radix%d" % r, [("from_radix", r)], req=req, types="all", tags=["radix"])
    # mixed mantissa radix / exponent base pairs, exponent digits in radix 10 or in the base
    for (r, b) in ((4, 2), (8, 2), (16, 2), (32, 2), (16, 4)):
        for xr in (10, b, r):
            add("mixed%d_%d_x%d" % (r, b, xr),
                [("mantissa_radix", r), ("exponent_base", b), ("exponent_radix", xr)],
                req=["pow2"], types="float", tags=["mixed"])
    # ---- syntax flags (C12): singles, defaults switched off, prefix / suffix, pairs, a few triples
    FL = ["required_integer_digits", "required_fraction_digits", "no_positive_mantissa_sign", "required_mantissa_sign",
          "no_exponent_notation", "no_positive_exponent_sign", "required_exponent_sign", "no_exponent_without_fraction",
          "no_special", "case_sensitive_special", "no_integer_leading_zeros", "no_float_leading_zeros",
          "required_exponent_notation", "case_sensitive_exponent"]
    for fl in FL:
        add("syn_" + fl, [(fl, True)], req=["format"], tags=["syntax", "single"])
    add("syn_no_required_exponent_digits", [("required_exponent_digits", False)], req=["format"], tags=["syntax", "single"])
    add("syn_no_required_mantissa_digits", [("required_mantissa_digits", False)], req=["format"], tags=["syntax", "single"])
    add("syn_required_digits", [("required_digits", True)], req=["format"], tags=["syntax", "single"])
    add("syn_no_required_digits", [("required_digits", False)], req=["format"], tags=["syntax", "single"])
    PS = ["format", "pow2"]
    add("syn_prefix_x", [("base_prefix", 120)], req=PS, tags=["syntax", "prefix"])
    add("syn_suffix_h", [("base_suffix", 104)], req=PS, tags=["syntax", "suffix"])
    add("syn_prefix_x_cs", [("base_prefix", 120), ("case_sensitive_base_prefix", True)], req=PS, tags=["syntax", "prefix"])
    add("syn_suffix_h_cs", [("base_suffix", 104), ("case_sensitive_base_suffix", True)], req=PS, tags=["syntax", "suffix"])
    add("syn_prefix_suffix", [("base_prefix", 120), ("base_suffix", 104)], req=PS, tags=["syntax", "prefix", "suffix"])
    add("syn_hex_prefix", [("mantissa_radix", 16), ("exponent_base", 2), ("exponent_radix", 10), ("base_prefix", 120)], req=PS,
        tags=["syntax", "prefix", "hex"])
    add("syn_prefix_nolz", [("base_prefix", 120), ("no_integer_leading_zeros", True), ("no_float_leading_zeros", True)], req=PS,
        tags=["syntax", "prefix"])
    import random
    rng = random.Random(20260926)
    pairs = list(itertools.combinations(FL + ["required_digits"], 2))
    rng.shuffle(pairs)
    for (a, b) in pairs[:45]:
        add("syn2_%s__%s" % (a, b), [(a, True), (b, True)], req=["format"], tags=["syntax", "pair"])
    for _ in range(12):
        t = rng.sample(FL, 3)
        add("syn3_" + "__".join(t), [(x, True) for x in t], req=["format"], tags=["syntax", "triple"])
    # ---- digit separators (C13)
    SEP = ("digit_separator", 95)
    kinds = ["internal", "leading", "trailing", "consecutive"]
    combos = [c for n in range(1, 5) for c in itertools.combinations(kinds, n)]          # 15 combinations
    for c in combos:
        add("sep_all_" + "".join(k[0] for k in c), [SEP] + [("%s_digit_separator" % k, True) for k in c], req=["format"],
            tags=["sep", "uniform"])
    for comp in ("integer", "fraction", "exponent"):
        for c in (("internal",), ("leading",), ("trailing",), ("internal", "leading"), ("internal", "leading", "trailing"),
                  ("internal", "leading", "trailing", "consecutive"), ("internal", "consecutive")):
            add("sep_%s_%s" % (comp[:3], "".join(k[0] for k in c)),
                [SEP] + [("%s_%s_digit_separator" % (comp, k), True) for k in c], req=["format"], tags=["sep", "component"])
    mixed = [(("integer", "internal"), ("fraction", "leading"), ("exponent", "trailing")),
             (("integer", "leading"), ("fraction", "trailing"), ("exponent", "internal")),
             (("integer", "trailing"), ("fraction", "internal"), ("exponent", "leading")),
             (("integer", "internal"), ("integer", "consecutive"), ("fraction", "internal")),
             (("fraction", "internal"), ("fraction", "consecutive"), ("exponent", "internal"), ("exponent", "consecutive")),
             (("integer", "leading"), ("integer", "trailing"), ("exponent", "leading"), ("exponent", "trailing"))]
    for i, m in enumerate(mixed):
        add("sep_mixed%d" % i, [SEP] + [("%s_%s_digit_separator" % (c, k), True) for (c, k) in m], req=["format"], tags=["sep", "mixed"])
    add("sep_special", [SEP, ("special_digit_separator", True)], req=["format"], tags=["sep", "special"])
    add("sep_all_flags", [SEP, ("digit_separator_flags", True)], req=["format"], tags=["sep", "special", "uniform"])
    add("sep_hex_all", [("from_radix", 16), SEP, ("internal_digit_separator", True), ("leading_digit_separator", True),
                        ("trailing_digit_separator", True)], req=PS, tags=["sep", "hex"])
    add("sep_hex_exp_int", [("from_radix", 16), SEP, ("exponent_internal_digit_separator", True),
                            ("exponent_leading_digit_separator", True)], req=PS, tags=["sep", "hex"])
    add("sep_apostrophe", [("digit_separator", 39), ("internal_digit_separator", True)], req=["format"], tags=["sep", "uniform"])
    add("sep_syntax_mix", [SEP, ("internal_digit_separator", True), ("required_digits", True), ("no_special", True)], req=["format"],
        tags=["sep", "syntax"])
    # ---- prebuilt language formats: the real constants (lexical_core::format::NAME); their meaning is the setter chain
    # of their definition, harvested from lexical-util/src/prebuilt_formats.rs into harness/prebuilt.json
    pre = os.path.join(os.path.dirname(os.path.abspath(__file__)), "..", "harness", "prebuilt.json")
    if os.path.exists(pre):
        seen = set()
        n = 0
        for (name, calls) in json.load(open(pre)):
            key = json.dumps(calls)
            if key in seen or not calls:
                continue
            seen.add(key)
            needs_p2 = any(c[0] in ("mantissa_radix", "exponent_base", "exponent_radix", "base_prefix", "base_suffix", "radix",
                                    "case_sensitive_base_prefix", "case_sensitive_base_suffix") for c in calls)
            tags = ["prebuilt", "syntax"]
            if any("digit_separator" in c[0] for c in calls):
                tags.append("sep")
            F.append({"id": len(F), "name": "pre_" + name, "calls": calls, "req": ["format"] + (["pow2"] if needs_p2 else []),
                      "types": "core", "tags": tags, "const": name})
            n += 1
            if n >= 40:
                break
    # ---- appended after round 1 (ids stay stable): separators in formats whose exponent digits use another radix than
    # the mantissa (found by the seed-7 run of C11: the exponent's separator look-ahead used the mantissa radix)
    def add2(name, calls, req, tags):
        F.append({"id": len(F), "name": name, "calls": [list(c) for c in calls], "req": sorted(set(req)), "types": "core", "tags": list(tags)})
    SEP = ("digit_separator", 95)
    for (r, b, xr) in ((4, 2, 10), (8, 2, 10), (16, 2, 10), (16, 4, 4), (32, 2, 10)):
        base = [("mantissa_radix", r), ("exponent_base", b), ("exponent_radix", xr), SEP]
        add2("sepmix%d_%d_x%d_i" % (r, b, xr), base + [("internal_digit_separator", True)], ["format", "pow2"], ["sep", "mixedsep", "uniform"])
        add2("sepmix%d_%d_x%d_exp_ilt" % (r, b, xr), base + [("exponent_internal_digit_separator", True), ("exponent_leading_digit_separator", True),
             ("exponent_trailing_digit_separator", True)], ["format", "pow2"], ["sep", "mixedsep", "component"])
        add2("sepmix%d_%d_x%d_ic" % (r, b, xr), base + [("internal_digit_separator", True), ("consecutive_digit_separator", True)], ["format", "pow2"],
             ["sep", "mixedsep", "uniform"])
    # ---- appended in round 3: flag pairs that the random selection above happens to miss but that interact in the writers
    # (S-C08-a needs required_exponent_notation AND required_exponent_sign: an exponent of 0 written in exponent notation)
    for (a, b) in (("required_exponent_notation", "required_exponent_sign"), ("required_exponent_notation", "no_positive_exponent_sign"),
                   ("required_exponent_notation", "no_exponent_without_fraction"), ("required_mantissa_sign", "required_exponent_sign"),
                   ("required_exponent_notation", "required_mantissa_sign")):
        F.append({"id": len(F), "name": "syn_pair_%s__%s" % (a, b), "calls": [[a, True], [b, True]], "req": ["format"], "types": "core",
                  "tags": ["syntax", "pair"]})
    return F

if __name__ == "__main__":
    out = sys.argv[1] if len(sys.argv) > 1 else os.path.join(os.path.dirname(__file__), "..", "harness", "formats.json")
    F = build()
    with open(out, "w") as f:
        json.dump(F, f, indent=0)
    print("catalogue: %d formats -> %s" % (len(F), out))
