#!/usr/bin/env python3
"""Write MANIFEST.json from the list of properties that have a plan (tools/plans.py)."""
import json, os, sys
sys.path.insert(0, os.path.dirname(os.path.abspath(__file__)))
ROOT = os.path.dirname(os.path.dirname(os.path.abspath(__file__)))
import plans

LEVEL_TEXT = {
}
DEFAULT_TEXT = ("Bounded TLA+ models of the property are explored exhaustively by TLC, and the implementation is bound to the "
                "specification by trace validation: every recorded public API call (constructed hard cases + seeded sampling, "
                "several build configurations) must be a step the specification allows, judged by TLC against exact "
                "arithmetic / the grammar automaton written in TLA+. Not universal over the input space; see evidence.")

def main():
    props = [json.loads(l) for l in open(os.path.join(ROOT, "properties.jsonl"))]
    checks, na = [], []
    for p in props:
        pid = p["id"]
        if pid in plans.PLANS:
            checks.append({
                "property_id": pid,
                "quick_cmd": "python3 tools/run_check.py %s quick" % pid,
                "thorough_cmd": "python3 tools/run_check.py %s thorough" % pid,
                "evidence_file": "evidence/%s.json" % pid,
                "replay_cmd_template": "python3 tools/run_check.py %s --replay {path}" % pid,
                "engine": "tlc-trace",
                "level_claimed": {"category": "model_checking", "text": plans.LEVEL.get(pid, DEFAULT_TEXT),
                                  "design_ref": "DESIGN.md section 8, " + pid},
                "level_note": plans.NOTE.get(pid, "Trusted: TLC 1.8.0 + CommunityModules Json/IOUtils; the TLA+ modules in spec/ (BigNat/Ieee self-checked by MC_BigNat/MC_Ieee and cross-examined by Rust std on the default format); the worker's value decomposition and guard-page allocator; the Python driver's sharding and known-finding matcher."),
                "technique": plans.TECH.get(pid, "TLA+ specification + TLC bounded models + TLC trace validation of recorded API calls"),
            })
        else:
            na.append({"property_id": pid, "reason": "check not built yet in this round (work in progress; planned in DESIGN.md section 8)"})
    m = {
        "version": 1,
        "setup_cmd": "bash tools/setup.sh",
        "hooks": {"guard": "lexical_verif", "enable": "harness/.cargo/config.toml sets rustflags --cfg lexical_verif --check-cfg cfg(lexical_verif) for every worker build (checks rebuild the workers from /repo's working tree); the hooks only add the `tier` field to events, every verdict is independent of them",
                  "baseline_off_cmd": "cd /repo && cargo test --workspace --no-fail-fast --offline",
                  "source_commits": ["5c0bdd4"], "add_only": True},
        "engines": [{"name": "tlc-trace", "path": "tools/run_check.py", "serves_properties": [c["property_id"] for c in checks],
                     "kind_free_text": "TLA+ specification (spec/*.tla); TLC explores bounded models and validates ndjson traces recorded from the real crates (harness/), one JVM per shard"}],
        "checks": checks,
        "notes": "All verdicts come from TLC evaluating spec/*.tla (plus one symbolic Apalache check, spec/AP_Bounds.tla, among the models of C09); drivers only construct inputs. Exit 2 = tool error. Self-tests (not checks): tools/bindtest.py, tools/selftest.py.",
        "not_applicable": na,
    }
    json.dump(m, open(os.path.join(ROOT, "MANIFEST.json"), "w"), indent=1)
    print("MANIFEST: %d checks, %d not yet claimed" % (len(checks), len(na)))

if __name__ == "__main__":
    main()
