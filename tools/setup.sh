#!/bin/bash
# Build the framework from files on disk only (offline): catalogue, documented examples, workers for every
# configuration used by the quick checks, syntax-check of every specification module.
set -e
cd "$(dirname "$0")/.."
export CARGO_NET_OFFLINE=true
mkdir -p work evidence
python3 tools/harvest_docs.py
python3 tools/catalogue.py
python3 tools/gen_formats.py
for m in spec/*.tla; do
  (cd spec && tla-sany "$(basename "$m")" > ../work/sany.log 2>&1) || { cat work/sany.log; exit 1; }
done
python3 - <<'PY'
import sys
sys.path.insert(0, "tools")
import vlib
for cfg in ["default", "compact", "rf", "crf", "pow2", "radix", "format"]:
    vlib.build_worker(cfg)
for cfg in ["default", "rf"]:
    vlib.build_worker(cfg, "dbg")
PY
echo "setup ok"
