#!/usr/bin/env python3
"""Per-property plans: which bounded models to run, which inputs to construct, which calls an
episode contains and under which build configurations.  No expectation is attached anywhere."""
import json, os, sys, time, random
import vlib, gens
from vlib import log
from gens import B, F32, F64

NAN = B("NaN")
INF = B("inf")
INFINITY = B("infinity")
PF_DEFAULT = {"lossy": False, "exp": 101, "point": 46, "nan": NAN, "inf": INF, "infinity": INFINITY}
WF_DEFAULT = {"max": 0, "min": 0, "pos": 9, "neg": -5, "round": "round", "trim": False, "exp": 101, "point": 46,
              "nan": NAN, "inf": INF}
PI_DEFAULT = {"nmd": True}
WI_DEFAULT = {}


def pf(**kw):
    o = dict(PF_DEFAULT)
    o.update(kw)
    return o


def wf(**kw):
    o = dict(WF_DEFAULT)
    o.update(kw)
    return o


class Cases:
    """Collects cases; each case lists the configurations it runs under."""

    def __init__(self):
        self.cases = []
        self.ep = 0
        self.nid = 0
        self.tags = {}

    def new_ep(self):
        self.ep += 1
        return self.ep

    def add(self, case, cfgs, tag=None):
        for cfg in cfgs:
            self.nid += 1
            c = dict(case)
            c["id"] = self.nid
            c["_cfg"] = cfg
            self.cases.append(c)
        if tag:
            self.tags[tag] = self.tags.get(tag, 0) + 1

    def parse(self, ep, ty, fmt, data, cfgs, partial=False, api="core", wo=False, opts=None, std=False, place="end",
              tag=None, **extra):
        isf = ty in ("f32", "f64")
        c = {"ep": ep, "op": "parse", "ty": ty, "fmt": fmt, "partial": partial, "api": api, "place": place,
             "in": B(data) if not isinstance(data, list) else data, "wo": wo,
             "opts": opts if opts is not None else (dict(PF_DEFAULT) if isf else dict(PI_DEFAULT))}
        if std:
            c["std"] = True
        c.update(extra)
        self.add(c, cfgs, tag)

    def write(self, ep, ty, fmt, val, cfgs, api="core", wo=False, opts=None, std=False, place="end", buflen=None,
              tag=None, **extra):
        isf = ty in ("f32", "f64")
        c = {"ep": ep, "op": "write", "ty": ty, "fmt": fmt, "api": api, "place": place, "val": val, "wo": wo,
             "opts": opts if opts is not None else (dict(WF_DEFAULT) if isf else dict(WI_DEFAULT))}
        if buflen is not None:
            c["buflen"] = buflen
        if std:
            c["std"] = True
        c.update(extra)
        self.add(c, cfgs, tag)


def execute(cs, wdir, profile="release", case_timeout=20):
    """Build the needed workers from /repo's working tree, run all cases, return events."""
    by = {}
    for c in cs.cases:
        by.setdefault(c["_cfg"], []).append({k: v for k, v in c.items() if k != "_cfg"})
    events = []
    for cfg in sorted(by):
        exe = vlib.build_worker(cfg, profile)
        name = cfg if profile == "release" else cfg + "-" + profile
        t0 = time.time()
        evs = vlib.run_cases(exe, name, by[cfg], wdir, case_timeout=case_timeout)
        log("[run] %s: %d cases %.1fs" % (name, len(by[cfg]), time.time() - t0))
        events.extend(evs)
    return events


def sample_events(events, k=6):
    out = []
    step = max(1, len(events) // k)
    for e in events[::step][:k]:
        s = vlib.strip_case(e)
        if isinstance(s.get("in"), list):
            s["in_text"] = bytes(s["in"]).decode("latin-1")[:120]
            if len(s["in"]) > 60:
                s["in"] = s["in"][:60] + ["..."]
        s["res"] = e.get("res")
        out.append(s)
    return out


def models_for(names, tier):
    res = []
    for (module, cfg, workers, timeout) in names:
        m = vlib.run_model(module, cfg, workers=workers, timeout=timeout)
        log("[model] %s/%s: %d states, %d transitions, ok=%s, %.1fs" % (module, cfg, m["states"], m["transitions"], m["ok"], m["wall"]))
        res.append(m)
    return res


# ================================================================================================
# C01

def plan_C01(tier, rng):
    cs = Cases()
    quick = tier == "quick"
    cfgs = ["default", "compact", "rf", "crf"] if quick else ["default", "compact", "rf", "crf", "pow2", "radix", "format", "nostd"]
    inputs = []
    for F in (F64, F32):
        nb = F["emax"] - F["emin"] + 1
        allb = list(range(F["emin"], F["emax"] + 1))
        if quick:
            binades = rng.sample(allb, 130 if F is F64 else 60)
            longb = set(rng.sample(binades, 12))
        else:
            binades = allb
            longb = set(rng.sample(allb, 150))
        hw = []
        for e in binades:
            hw += gens.halfway_inputs(F, rng, [e], pats_per=2 if quick else 3, long_ok=e in longb)
        inputs += [(s, t, F) for (s, t) in hw]
        qs = list(range(-342, 309)) if F is F64 else list(range(-65, 39))
        if quick:
            qs = rng.sample(qs, 160 if F is F64 else 50)
        inputs += [(s, t, F) for (s, t) in gens.lemire_row_inputs(F, rng, qs, per=1 if quick else 3)]
        fp = gens.fastpath_boundary(F, rng)
        if quick:
            fp = rng.sample(fp, 250)
        inputs += [(s, t, F) for (s, t) in fp]
        inputs += [(s, t, F) for (s, t) in gens.edge_inputs(F, rng)]
        inputs += [(s, t, F) for (s, t) in gens.random_decimal(rng, 400 if quick else 6000)]
        inputs += [(s, t, F) for (s, t) in gens.random_long_decimal(rng, 10 if quick else 150)]
    i = 0
    for (s, tag, F) in inputs:
        i += 1
        ep = cs.new_ep()
        ty = F["name"]
        other = "f32" if ty == "f64" else "f64"
        long_in = len(s) > 200
        # no-options API everywhere, with-options API (STANDARD) on a rotating configuration
        cs.parse(ep, ty, 0, s, cfgs, std=True, tag=tag)
        cs.parse(ep, ty, 0, s, [cfgs[i % len(cfgs)]], wo=True, opts=pf())
        cs.parse(ep, ty, 0, s, [cfgs[(i + 1) % len(cfgs)]], partial=True)
        if not long_in:
            cs.parse(ep, other, 0, s, [cfgs[(i + 2) % len(cfgs)], cfgs[(i + 3) % len(cfgs)]], std=True)
    models = [("MC_BigNat.tla", "MC_BigNat.cfg", 4, 600), ("MC_Ieee.tla", "MC_Ieee.cfg", 4, 900)]
    return cs, models, {"input_families": cs.tags, "configurations": cfgs}


# ================================================================================================
# helpers shared by plans

_FMT = None


def fmt_id(name):
    global _FMT
    if _FMT is None:
        _FMT = {f["name"]: f for f in vlib.load_formats()}
    return _FMT[name]["id"]


def radix_fmt(r):
    return 0 if r == 10 else fmt_id("radix%d" % r)


def radix_cfgs(r, cfgs):
    """configurations (out of cfgs) in which radix r exists"""
    out = []
    for c in cfgs:
        feats = vlib.CONFIGS[c]
        if r == 10 or "radix" in feats or ("pow2" in feats and r in (2, 4, 8, 16, 32)):
            out.append(c)
    return out


def exp_char(r):
    return 101 if r < 15 else 94          # 'e' is a digit from radix 15 on: use '^'


# ================================================================================================
# C02

def plan_C02(tier, rng):
    cs = Cases()
    quick = tier == "quick"
    cfgs = ["default", "compact"] if quick else ["default", "compact", "rf", "crf"]
    vals = []
    for F in (F64, F32):
        nb = (1 << F["ebits"]) - 1
        binades = list(range(nb))
        vals += [(b, t, F) for (b, t) in gens.float_values(F, rng, nrand=300 if quick else 20000,
                                                            per_binade=1 if quick else 4,
                                                            binades=binades if (not quick or F is F32) else rng.sample(binades, 700))]
        # all shorter-interval floats (mantissa field 0) -- exhaustive
        vals += [("%x" % (ef << F["mbits"]), "shorter-interval", F) for ef in range(1, nb)]
        if F is F64:
            vals += [(b, t, F) for (b, t) in gens.endpoint_family(F, rng, 17 if quick else 15, 22)]
            vals += [(b, t, F) for (b, t) in gens.endpoint_family(F, rng, 0, 16 if quick else 14, limit=40 if quick else 1500)]
        else:
            vals += [(b, t, F) for (b, t) in gens.endpoint_family(F, rng, 6 if quick else 4, 10)]
            vals += [(b, t, F) for (b, t) in gens.endpoint_family(F, rng, 0, 5 if quick else 3, limit=40 if quick else 1500)]
        for k in range(-330 if F is F64 else -46, 310 if F is F64 else 40):
            try:
                vals.append((gens.pyfloat_bits(F, float("1e%d" % k)), "pow10", F))
            except OverflowError:
                pass
        p = F["p"]
        for j in range(-6, 7):
            vals.append((gens.float_bits(F, *norm(F, (1 << p) + j, 0)), "int-2^p", F))
    i = 0
    for (bits, tag, F) in vals:
        i += 1
        ep = cs.new_ep()
        ty = F["name"]
        cs.write(ep, ty, 0, bits, cfgs, std=True, tag=tag)
        cs.write(ep, ty, 0, bits, [cfgs[i % len(cfgs)]], wo=True, opts=wf())
    models = [("MC_BigNat.tla", "MC_BigNat.cfg", 4, 600), ("MC_Ieee.tla", "MC_Ieee.cfg", 4, 900)]
    return cs, models, {"input_families": cs.tags, "configurations": cfgs}


def norm(F, m, e):
    p = F["p"]
    while m >= (1 << p):
        m >>= 1
        e += 1
    return m, e


# ================================================================================================
# C03

def plan_C03(tier, rng):
    cs = Cases()
    quick = tier == "quick"
    cfgs = ["default", "compact", "radix"] if quick else ["default", "compact", "radix", "pow2", "crf"]
    small = ["u8", "i8"] if quick else ["u8", "i8", "u16", "i16"]
    for ty in gens.INT_TYPES:
        lo, hi = gens.int_range(ty)
        for r in range(2, 37):
            rc = radix_cfgs(r, cfgs)
            if not rc:
                continue
            if ty in small:
                if ty in ("u16", "i16"):
                    vs = range(lo, hi + 1) if r in (2, 3, 7, 10, 16, 36) else gens.boundary_ints(ty, r, rng, 40)
                else:
                    vs = range(lo, hi + 1)
            else:
                vs = gens.boundary_ints(ty, r, rng, 3 if quick else 40)
            f = radix_fmt(r)
            ep = cs.new_ep()
            j = 0
            for v in vs:
                j += 1
                if r == 10:
                    cs.write(ep, ty, 0, str(v), [rc[j % len(rc)]], std=True, tag="decimal")
                    if j % 4 == 0:
                        cs.write(ep, ty, 0, str(v), [rc[(j + 1) % len(rc)]], wo=True, tag="decimal-opts")
                else:
                    cs.write(ep, ty, f, str(v), [rc[j % len(rc)]], wo=True, tag="radix")
                if j % 64 == 0:
                    ep = cs.new_ep()
    models = [("MC_BigNat.tla", "MC_BigNat.cfg", 4, 600)]
    return cs, models, {"input_families": cs.tags, "configurations": cfgs,
                        "exhaustive_types": small}


# ================================================================================================
# C04

def c04_strings(ty, r, rng, quick):
    """numerals around the limits, long zero prefixes, invalid bytes at every position"""
    lo, hi = gens.int_range(ty)
    out = []
    vs = [hi - 1, hi, hi + 1, hi + r, lo + 1, lo, lo - 1, lo - r, 0, 1, -1, hi * r, hi * r + 1, lo * r - 1, (hi + 1) * r * r]
    k = 1
    while r ** k <= hi * r:
        vs += [r ** k - 1, r ** k, -(r ** k)]
        k += 1
    for v in vs:
        s = gens.int_numeral(v, r, lower=rng.random() < 0.5)
        out.append(s)
        if rng.random() < 0.3:
            out.append("+" + s.lstrip("-"))
        if rng.random() < 0.5:
            z = rng.choice([1, 3, 8, 20, 40])
            out.append(("-" if s.startswith("-") else "") + "0" * z + s.lstrip("-"))
    top = gens.DIG[r - 1]
    nd = len(gens.to_radix(hi, r))
    for n in (nd - 1, nd, nd + 1, nd + 2):
        out.append(top * max(n, 1))
        out.append("-" + top * max(n, 1))
    bad = [b"/", b":", b"@", b"[", b"`", b"{", b"\x80", b"\xff", b" ", b".", b"e", b"_", gens.DIG[r % 36].encode() if r < 36 else b"~",
           gens.DIG[r % 36].lower().encode() if r < 36 else b"|", b"g", b"G", b"z", b"Z"]
    base = gens.int_numeral(rng.randrange(0, hi + 1), r)
    for _ in range(6 if quick else 40):
        n = rng.choice([1, 2, 3, 4, 5, 7, 8, 9, 12, 16, 17, 20])
        s = "".join(rng.choice(gens.DIG[:r]) for _ in range(n))
        pos = rng.randrange(0, n + 1)
        b = rng.choice(bad)
        out.append(s[:pos].encode() + b + s[pos:].encode())
    out += ["", "+", "-", "+-1", "--1", "-+1", "1-", "1+", " 1", "1 "]
    return out


def plan_C04(tier, rng):
    cs = Cases()
    quick = tier == "quick"
    cfgs = ["default", "compact", "radix"] if quick else ["default", "compact", "radix", "pow2", "rf"]
    i = 0
    for ty in gens.INT_TYPES:
        radices = list(range(2, 37))
        if quick and ty in ("usize", "isize", "u16", "i16"):
            radices = [2, 10, 16, 36]
        for r in radices:
            rc = radix_cfgs(r, cfgs)
            if not rc:
                continue
            f = radix_fmt(r)
            ep = cs.new_ep()
            for s in c04_strings(ty, r, rng, quick):
                i += 1
                data = list(s) if isinstance(s, bytes) else B(s)
                nmd = (i % 3 != 0)
                if r == 10:
                    cs.parse(ep, ty, 0, data, [rc[i % len(rc)]], std=True, tag="decimal")
                    cs.parse(ep, ty, 0, data, [rc[(i + 1) % len(rc)]], partial=True)
                    if i % 3 == 0:
                        cs.parse(ep, ty, 0, data, [rc[(i + 2) % len(rc)]], wo=True, opts={"nmd": nmd})
                else:
                    cs.parse(ep, ty, f, data, [rc[i % len(rc)]], wo=True, opts={"nmd": nmd}, tag="radix")
                    if i % 2 == 0:
                        cs.parse(ep, ty, f, data, [rc[(i + 1) % len(rc)]], wo=True, opts={"nmd": nmd}, partial=True)
                if i % 40 == 0:
                    ep = cs.new_ep()
    # random byte strings (totality of the contract)
    for _ in range(300 if quick else 5000):
        ep = cs.new_ep()
        n = rng.choice([0, 1, 2, 3, 5, 8, 9, 16, 33])
        data = [rng.choice([rng.randrange(256), rng.randrange(48, 58), rng.randrange(48, 58), 43, 45]) for _ in range(n)]
        ty = rng.choice(list(gens.INT_TYPES))
        cs.parse(ep, ty, 0, data, [rng.choice(cfgs)], std=True, tag="random-bytes")
        cs.parse(ep, ty, 0, data, [rng.choice(cfgs)], partial=True)
    models = [("MC_BigNat.tla", "MC_BigNat.cfg", 4, 600), ("MC_IntParse.tla", "MC_IntParse.cfg", 8, 900)]
    return cs, models, {"input_families": cs.tags, "configurations": cfgs}


# ================================================================================================
# C05

MIXED = [(4, 2), (8, 2), (16, 2), (32, 2), (16, 4)]


def plan_C05(tier, rng):
    cs = Cases()
    quick = tier == "quick"
    cfgs = ["radix", "crf"] if quick else ["radix", "crf", "pow2", "rf"]
    i = 0
    for r in range(2, 37):
        if r == 10:
            continue
        rc = radix_cfgs(r, cfgs)
        f = radix_fmt(r)
        ec = exp_char(r)
        for F in (F64, F32):
            ins = gens.radix_inputs(F, r, rng, (5 if F is F64 else 3) if quick else 40, echar=chr(ec))
            for (s, tag) in ins:
                i += 1
                ep = cs.new_ep()
                o = pf(exp=ec)
                cs.parse(ep, F["name"], f, s, rc, wo=True, opts=o, tag=tag)
                if i % 3 == 0:
                    cs.parse(ep, F["name"], f, s, [rc[i % len(rc)]], wo=True, opts=o, partial=True)
    for (r, b) in MIXED:
        for xr in (10, b, r):
            f = fmt_id("mixed%d_%d_x%d" % (r, b, xr))
            rc = radix_cfgs(r, cfgs)
            for F in (F64, F32):
                ins = gens.radix_inputs(F, r, rng, 4 if quick else 40, base=b, xr=xr, echar="^")
                for (s, tag) in ins:
                    i += 1
                    ep = cs.new_ep()
                    o = pf(exp=94)
                    cs.parse(ep, F["name"], f, s, rc, wo=True, opts=o, tag="mixed-" + tag)
                for s in ("1.8^3", "1^3", "0.8^1", "1.8^-3", "A^0", "a.8^1", "1^0"):
                    ep = cs.new_ep()
                    if xr == 10:
                        cs.parse(ep, F["name"], f, s, rc, wo=True, opts=pf(exp=94), tag="mixed-hexfloat")
    models = [("MC_BigNat.tla", "MC_BigNat.cfg", 4, 600), ("MC_Ieee.tla", "MC_Ieee.cfg", 4, 900)]
    return cs, models, {"input_families": cs.tags, "configurations": cfgs}


PLANS = {"C01": plan_C01, "C02": plan_C02, "C03": plan_C03, "C04": plan_C04, "C05": plan_C05}


ASSUME = {
    "C01": ["TLC 1.8.0 and the CommunityModules Json/IOUtils overrides evaluate the specification faithfully",
            "the worker's ~30-line decomposition of f32/f64 bits into (sign, class, integer significand, binary exponent) is right",
            "coverage is by construction (halfway points, table rows, fast-path limits, extremes) plus seeded sampling, not universal"],
}


def run(prop, tier, seed, t0):
    if prop not in PLANS:
        log("no plan for " + prop)
        return 2
    rng = random.Random(seed * 1000003 + sum(map(ord, prop)))
    wdir = os.path.join(vlib.WORK, "%s-%s-%d" % (prop, tier, os.getpid()))
    os.makedirs(wdir, exist_ok=True)
    vlib.regen_catalogue()
    cs, models, extra = PLANS[prop](tier, rng)
    log("[plan] %s %s: %d cases in %d episodes" % (prop, tier, len(cs.cases), cs.ep))
    events = execute(cs, wdir)
    mres = models_for(models, tier)
    t1 = time.time()
    result = vlib.judge(events, wdir)
    log("[judge] %d events, %d shards, %.1fs, %d mismatches" % (result["events"], result["shards"], time.time() - t1, len(result["mismatches"])))
    rc = vlib.finish(prop, tier, seed, t0, result, mres, sample_events(events), extra_cov=extra,
                     assumptions=ASSUME.get(prop, []))
    import shutil
    if rc == 0:
        shutil.rmtree(wdir, ignore_errors=True)
    return rc


def replay(path):
    d = json.load(open(path))
    prop = d["property"]
    cs = Cases()
    for c in d["cases"]:
        c = dict(c)
        cfg = c.pop("cfg", "default")
        base, _, prof = cfg.partition("-")
        c["_cfg"] = base
        cs.cases.append(c)
    wdir = os.path.join(vlib.WORK, "replay-%d" % os.getpid())
    os.makedirs(wdir, exist_ok=True)
    events = execute(cs, wdir)
    result = vlib.judge(events, wdir, nshards=1)
    t0 = time.time()
    n = 0
    for mm in result["mismatches"]:
        if mm["prop"] == prop:
            n += 1
            print("VIOLATION property=%s replay=%s  # %s" % (prop, path, mm["why"]))
    if n == 0:
        print("replay: no violation of %s reproduced" % prop)
    return 1 if n else 0

LEVEL = {}
NOTE = {}
TECH = {}
