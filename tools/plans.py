#!/usr/bin/env python3
"""Per-property plans: which bounded models to run, which inputs to construct, which calls an
episode contains and under which build configurations.  No expectation is attached anywhere."""
import json, os, sys, time, random
import vlib, gens
from vlib import log
from gens import B, F32, F64, samp

NAN = B("NaN")
INF = B("inf")
INFINITY = B("infinity")
PF_DEFAULT = {"lossy": False, "exp": 101, "point": 46, "nan": NAN, "inf": INF, "infinity": INFINITY}
WF_DEFAULT = {"max": 0, "min": 0, "pos": 9, "neg": -5, "round": "round", "trim": False, "exp": 101, "point": 46,
              "nan": NAN, "inf": INF}
PI_DEFAULT = {"nmd": True}
WI_DEFAULT = {}


def pf(**kw):
    o = dict(PF_DEFAULT)
    o.update(kw)
    return o


def wf(**kw):
    o = dict(WF_DEFAULT)
    o.update(kw)
    return o


class Cases:
    """Collects cases; each case lists the configurations it runs under."""

    def __init__(self):
        self.cases = []
        self.ep = 0
        self.nid = 0
        self.tags = {}

    def new_ep(self):
        self.ep += 1
        return self.ep

    def add(self, case, cfgs, tag=None):
        for cfg in cfgs:
            self.nid += 1
            c = dict(case)
            c["id"] = self.nid
            c["_cfg"] = cfg
            self.cases.append(c)
        if tag:
            self.tags[tag] = self.tags.get(tag, 0) + 1

    def parse(self, ep, ty, fmt, data, cfgs, partial=False, api="core", wo=False, opts=None, std=False, place="end",
              tag=None, **extra):
        isf = ty in ("f32", "f64")
        c = {"ep": ep, "op": "parse", "ty": ty, "fmt": fmt, "partial": partial, "api": api, "place": place,
             "in": B(data) if not isinstance(data, list) else data, "wo": wo,
             "opts": opts if opts is not None else (dict(PF_DEFAULT) if isf else dict(PI_DEFAULT))}
        if std:
            c["std"] = True
        c.update(extra)
        self.add(c, cfgs, tag)

    def write(self, ep, ty, fmt, val, cfgs, api="core", wo=False, opts=None, std=False, place="end", buflen=None,
              tag=None, **extra):
        isf = ty in ("f32", "f64")
        c = {"ep": ep, "op": "write", "ty": ty, "fmt": fmt, "api": api, "place": place, "val": val, "wo": wo,
             "opts": opts if opts is not None else (dict(WF_DEFAULT) if isf else dict(WI_DEFAULT))}
        if buflen is not None:
            c["buflen"] = buflen
        if std:
            c["std"] = True
        c.update(extra)
        self.add(c, cfgs, tag)


def execute(cs, wdir, profile="release", case_timeout=20):
    """Build the needed workers from /repo's working tree, run all cases, return events."""
    by = {}
    for c in cs.cases:
        by.setdefault(c["_cfg"], []).append({k: v for k, v in c.items() if k != "_cfg"})
    events = []
    for cfg in sorted(by):
        exe = vlib.build_worker(cfg, profile)
        name = cfg if profile == "release" else cfg + "-" + profile
        t0 = time.time()
        evs = vlib.run_cases(exe, name, by[cfg], wdir, case_timeout=case_timeout)
        for e in evs:
            e["_cfgname"] = cfg
        # a format / type that this build configuration does not compile is a planning artefact, not an observation
        # of the code under test: such events are dropped (and counted), never judged
        una = [e for e in evs if isinstance(e.get("res"), dict) and e["res"].get("k") in ("nofmt", "noty")]
        if una:
            UNAVAILABLE[0] += len(una)
            evs = [e for e in evs if not (isinstance(e.get("res"), dict) and e["res"].get("k") in ("nofmt", "noty"))]
        log("[run] %s: %d cases %.1fs%s" % (name, len(by[cfg]), time.time() - t0, (" (%d not available in this build, dropped)" % len(una)) if una else ""))
        events.extend(evs)
    return events


UNAVAILABLE = [0]


def sample_events(events, k=6):
    out = []
    step = max(1, len(events) // k)
    for e in events[::step][:k]:
        s = vlib.strip_case(e)
        if isinstance(s.get("in"), list):
            s["in_text"] = bytes(s["in"]).decode("latin-1")[:120]
            if len(s["in"]) > 60:
                s["in"] = s["in"][:60] + ["..."]
        s["res"] = e.get("res")
        out.append(s)
    return out


def models_for(names, tier):
    res = []
    for item in names:
        if isinstance(item, dict):
            res.append(item)
            continue
        (module, cfg, workers, timeout) = item
        if cfg.startswith("apalache:"):
            m = vlib.run_apalache(module, cfg.split(":", 1)[1], timeout=timeout)
        else:
            m = vlib.run_model(module, cfg, workers=workers, timeout=timeout)
        log("[model] %s/%s: %d states, %d transitions, ok=%s, %.1fs" % (module, cfg, m["states"], m["transitions"], m["ok"], m["wall"]))
        res.append(m)
    return res


# ================================================================================================
# C01

def plan_C01(tier, rng):
    cs = Cases()
    quick = tier == "quick"
    cfgs = ["default", "compact", "rf", "crf"] if quick else ["default", "compact", "rf", "crf", "pow2", "radix", "format", "nostd"]
    inputs = []
    for F in (F64, F32):
        nb = F["emax"] - F["emin"] + 1
        allb = list(range(F["emin"], F["emax"] + 1))
        if quick:
            binades = samp(rng, allb, 130 if F is F64 else 60)
            # always: binades where the halfway integer (2m+1) * 2^(e-1) has a bit length next to a multiple of 64 (limb
            # boundaries of the big-integer slow path; S-C01-c: sticky flag of hi64 lost when the length is a multiple of 64)
            limb = [e for e in allb if e >= 1 and (e + F["p"]) % 64 in (0, 1, 63)] + [e for e in allb if e < 0 and (-e) % 64 in (0, 1, 63)]
            binades = sorted(set(binades) | set(limb if F is F64 else limb[:40]))
            longb = set(samp(rng, binades, 12))
        else:
            binades = allb
            longb = set(samp(rng, allb, 150))
        hw = []
        for e in binades:
            hw += gens.halfway_inputs(F, rng, [e], pats_per=2 if quick else 3, long_ok=e in longb)
        inputs += [(s, t, F) for (s, t) in hw]
        qs = list(range(-342, 309)) if F is F64 else list(range(-65, 39))         # every power-table row, also in quick
        inputs += [(s, t, F) for (s, t) in gens.lemire_row_inputs(F, rng, qs, per=1 if quick else 3)]
        inputs += [(s, t, F) for (s, t) in gens.tie_decimals(F, rng, per=4 if quick else 40)]
        fp = gens.fastpath_boundary(F, rng)
        if quick:
            fp = samp(rng, fp, 250)
        inputs += [(s, t, F) for (s, t) in fp]
        inputs += [(s, t, F) for (s, t) in gens.edge_inputs(F, rng)]
        inputs += [(s, t, F) for (s, t) in gens.underflow_boundary(F, 10, 10, 10, "e")]
        inputs += [(s, t, F) for (s, t) in gens.random_decimal(rng, 400 if quick else 6000)]
        inputs += [(s, t, F) for (s, t) in gens.random_long_decimal(rng, 10 if quick else 150)]
        inputs += [(s, t, F) for (s, t) in gens.zero_padded_decimal(rng, 60 if quick else 1500)]
        inputs += [(s, t, F) for (s, t) in gens.sticky_placement_inputs(F, rng, (2 if F is F64 else 4) if quick else 30)]
    i = 0
    for (s, tag, F) in inputs:
        i += 1
        ep = cs.new_ep()
        ty = F["name"]
        other = "f32" if ty == "f64" else "f64"
        long_in = len(s) > 200
        # no-options API everywhere, with-options API (STANDARD) on a rotating configuration
        cs.parse(ep, ty, 0, s, cfgs, std=True, tag=tag)
        cs.parse(ep, ty, 0, s, [cfgs[i % len(cfgs)]], wo=True, opts=pf())
        cs.parse(ep, ty, 0, s, [cfgs[(i + 1) % len(cfgs)]], partial=True)
        if not long_in:
            cs.parse(ep, other, 0, s, [cfgs[(i + 2) % len(cfgs)], cfgs[(i + 3) % len(cfgs)]], std=True)
    models = [("MC_BigNat.tla", "MC_BigNat.cfg", 4, 600), ("MC_Ieee.tla", "MC_Ieee.cfg", 4, 900)]
    if not quick:
        models.append(("MC_Pipeline.tla", "MC_Pipeline_ok.cfg", 8, 1800))
    return cs, models, {"input_families": cs.tags, "configurations": cfgs}


# ================================================================================================
# helpers shared by plans

_FMT = None


def fmt_id(name):
    global _FMT
    if _FMT is None:
        _FMT = {f["name"]: f for f in vlib.load_formats()}
    return _FMT[name]["id"]


def radix_fmt(r):
    return 0 if r == 10 else fmt_id("radix%d" % r)


def radix_cfgs(r, cfgs):
    """configurations (out of cfgs) in which radix r exists"""
    out = []
    for c in cfgs:
        feats = vlib.CONFIGS[c]
        if r == 10 or "radix" in feats or ("pow2" in feats and r in (2, 4, 8, 16, 32)):
            out.append(c)
    return out


def exp_char(r):
    return 101 if r < 15 else 94          # 'e' is a digit from radix 15 on: use '^'


# ================================================================================================
# C02

def plan_C02(tier, rng):
    cs = Cases()
    quick = tier == "quick"
    cfgs = ["default", "compact"] if quick else ["default", "compact", "rf", "crf"]
    vals = []
    for F in (F64, F32):
        nb = (1 << F["ebits"]) - 1
        binades = list(range(nb))
        vals += [(b, t, F) for (b, t) in gens.float_values(F, rng, nrand=300 if quick else 20000,
                                                            per_binade=1 if quick else 4,
                                                            binades=binades if (not quick or F is F32) else samp(rng, binades, 700))]
        # all shorter-interval floats (mantissa field 0) -- exhaustive
        vals += [("%x" % (ef << F["mbits"]), "shorter-interval", F) for ef in range(1, nb)]
        if F is F64:
            vals += [(b, t, F) for (b, t) in gens.endpoint_family(F, rng, 17 if quick else 15, 22)]
            vals += [(b, t, F) for (b, t) in gens.endpoint_family(F, rng, 0, 16 if quick else 14, limit=40 if quick else 1500)]
        else:
            vals += [(b, t, F) for (b, t) in gens.endpoint_family(F, rng, 6 if quick else 4, 10)]
            vals += [(b, t, F) for (b, t) in gens.endpoint_family(F, rng, 0, 5 if quick else 3, limit=40 if quick else 1500)]
        for k in range(-330 if F is F64 else -46, 310 if F is F64 else 40):
            try:
                vals.append((gens.pyfloat_bits(F, float("1e%d" % k)), "pow10", F))
            except OverflowError:
                pass
        p = F["p"]
        for j in range(-6, 7):
            vals.append((gens.float_bits(F, *norm(F, (1 << p) + j, 0)), "int-2^p", F))
    i = 0
    for (bits, tag, F) in vals:
        i += 1
        ep = cs.new_ep()
        ty = F["name"]
        cs.write(ep, ty, 0, bits, cfgs, std=True, tag=tag)
        cs.write(ep, ty, 0, bits, [cfgs[i % len(cfgs)]], wo=True, opts=wf())
    models = [("MC_BigNat.tla", "MC_BigNat.cfg", 4, 600), ("MC_Ieee.tla", "MC_Ieee.cfg", 4, 900)]
    return cs, models, {"input_families": cs.tags, "configurations": cfgs}


def norm(F, m, e):
    p = F["p"]
    while m >= (1 << p):
        m >>= 1
        e += 1
    return m, e


# ================================================================================================
# C03

def plan_C03(tier, rng):
    cs = Cases()
    quick = tier == "quick"
    cfgs = ["default", "compact", "radix", "rf"] if quick else ["default", "compact", "radix", "pow2", "crf", "rf"]
    small = ["u8", "i8"] if quick else ["u8", "i8", "u16", "i16"]
    for ty in gens.INT_TYPES:
        lo, hi = gens.int_range(ty)
        for r in range(2, 37):
            rc = radix_cfgs(r, cfgs)
            if not rc:
                continue
            if ty in small:
                if ty in ("u16", "i16"):
                    vs = range(lo, hi + 1) if r in (2, 3, 7, 10, 16, 36) else gens.boundary_ints(ty, r, rng, 40)
                else:
                    vs = range(lo, hi + 1)
            else:
                vs = gens.boundary_ints(ty, r, rng, 3 if quick else 40)
            f = radix_fmt(r)
            ep = cs.new_ep()
            j = 0
            for v in vs:
                j += 1
                if r == 10:
                    cs.write(ep, ty, 0, str(v), [rc[j % len(rc)]], std=True, tag="decimal")
                    if j % 4 == 0:
                        cs.write(ep, ty, 0, str(v), [rc[(j + 1) % len(rc)]], wo=True, tag="decimal-opts")
                else:
                    cs.write(ep, ty, f, str(v), [rc[j % len(rc)]], wo=True, tag="radix")
                if j % 64 == 0:
                    ep = cs.new_ep()
    # the sign clause: '+' only if the format requires a sign (core types of the flagged formats)
    for name in ("syn_required_mantissa_sign", "syn_no_positive_mantissa_sign", "syn_required_digits", "pre_JAVA_LITERAL"):
        try:
            fid = fmt_id(name)
        except KeyError:
            continue
        if "rf" not in cfgs and "crf" not in cfgs:
            break
        c = ["crf" if "crf" in cfgs else "rf"]
        for ty in ("i32", "u64"):
            ep = cs.new_ep()
            for v in gens.boundary_ints(ty, 10, rng, 6):
                cs.write(ep, ty, fid, str(v), c, wo=True, tag="sign-flag-format")
    # formats whose exponent digits use another radix than the mantissa: integers are written in the mantissa radix
    # (S-C03-c: signed integers written in the exponent radix)
    if "rf" in cfgs:
        for fname in ("sepmix4_2_x10_i", "sepmix8_2_x10_i", "sepmix16_2_x10_i", "sepmix16_4_x4_i", "sepmix32_2_x10_i", "syn_hex_prefix"):
            fid = fmt_id(fname)
            mr = [a for (n_, a) in fmt_tags()[fid]["calls"] if n_ == "mantissa_radix"][0]
            for ty in gens.INT_TYPES:
                ep = cs.new_ep()
                for v in gens.boundary_ints(ty, mr, rng, 2 if quick else 20)[:: (3 if quick else 1)]:
                    cs.write(ep, ty, fid, str(v), ["rf"], wo=True, tag="mixed-radix-format")
    models = [("MC_BigNat.tla", "MC_BigNat.cfg", 4, 600),
              ("MC_IntWrite.tla", "MC_IntWrite_quick.cfg" if quick else "MC_IntWrite.cfg", 8, 3600)]
    return cs, models, {"input_families": cs.tags, "configurations": cfgs,
                        "exhaustive_types": small}


# ================================================================================================
# C04

def c04_strings(ty, r, rng, quick):
    """numerals around the limits, long zero prefixes, invalid bytes at every position"""
    lo, hi = gens.int_range(ty)
    out = []
    vs = [hi - 1, hi, hi + 1, hi + r, lo + 1, lo, lo - 1, lo - r, 0, 1, -1, hi * r, hi * r + 1, lo * r - 1, (hi + 1) * r * r]
    k = 1
    while r ** k <= hi * r:
        vs += [r ** k - 1, r ** k, -(r ** k)]
        k += 1
    for v in vs:
        s = gens.int_numeral(v, r, lower=rng.random() < 0.5)
        out.append(s)
        if rng.random() < 0.3:
            out.append("+" + s.lstrip("-"))
        if rng.random() < 0.5:
            z = rng.choice([1, 3, 8, 20, 40])
            out.append(("-" if s.startswith("-") else "") + "0" * z + s.lstrip("-"))
    top = gens.DIG[r - 1]
    nd = len(gens.to_radix(hi, r))
    for n in (nd - 1, nd, nd + 1, nd + 2):
        out.append(top * max(n, 1))
        out.append("-" + top * max(n, 1))
    bad = [b"/", b":", b"@", b"[", b"`", b"{", b"\x80", b"\xff", b" ", b".", b"e", b"_", gens.DIG[r % 36].encode() if r < 36 else b"~",
           gens.DIG[r % 36].lower().encode() if r < 36 else b"|", b"g", b"G", b"z", b"Z"]
    base = gens.int_numeral(rng.randrange(0, hi + 1), r)
    for _ in range(6 if quick else 40):
        n = rng.choice([1, 2, 3, 4, 5, 7, 8, 9, 12, 16, 17, 20])
        s = "".join(rng.choice(gens.DIG[:r]) for _ in range(n))
        pos = rng.randrange(0, n + 1)
        b = rng.choice(bad)
        out.append(s[:pos].encode() + b + s[pos:].encode())
    out += ["", "+", "-", "+-1", "--1", "-+1", "1-", "1+", " 1", "1 "]
    return out


def plan_C04(tier, rng):
    cs = Cases()
    quick = tier == "quick"
    cfgs = ["default", "compact", "radix"] if quick else ["default", "compact", "radix", "pow2", "rf"]
    i = 0
    for ty in gens.INT_TYPES:
        radices = list(range(2, 37))
        if quick and ty in ("usize", "isize", "u16", "i16"):
            radices = [2, 10, 16, 36]
        for r in radices:
            rc = radix_cfgs(r, cfgs)
            if not rc:
                continue
            f = radix_fmt(r)
            ep = cs.new_ep()
            for s in c04_strings(ty, r, rng, quick):
                i += 1
                data = list(s) if isinstance(s, bytes) else B(s)
                nmd = (i % 3 != 0)
                if r == 10:
                    cs.parse(ep, ty, 0, data, [rc[i % len(rc)]], std=True, tag="decimal")
                    cs.parse(ep, ty, 0, data, [rc[(i + 1) % len(rc)]], partial=True)
                    if i % 3 == 0:
                        cs.parse(ep, ty, 0, data, [rc[(i + 2) % len(rc)]], wo=True, opts={"nmd": nmd})
                else:
                    cs.parse(ep, ty, f, data, [rc[i % len(rc)]], wo=True, opts={"nmd": nmd}, tag="radix")
                    if i % 2 == 0:
                        cs.parse(ep, ty, f, data, [rc[(i + 1) % len(rc)]], wo=True, opts={"nmd": nmd}, partial=True)
                if i % 40 == 0:
                    ep = cs.new_ep()
    # random byte strings (totality of the contract)
    for _ in range(300 if quick else 5000):
        ep = cs.new_ep()
        n = rng.choice([0, 1, 2, 3, 5, 8, 9, 16, 33])
        data = [rng.choice([rng.randrange(256), rng.randrange(48, 58), rng.randrange(48, 58), 43, 45]) for _ in range(n)]
        ty = rng.choice(list(gens.INT_TYPES))
        cs.parse(ep, ty, 0, data, [rng.choice(cfgs)], std=True, tag="random-bytes")
        cs.parse(ep, ty, 0, data, [rng.choice(cfgs)], partial=True)
    # formats whose exponent digits use another radix than the mantissa: integers are read in the mantissa radix
    if "rf" in cfgs or True:
        for fname in ("sepmix4_2_x10_i", "sepmix16_2_x10_i", "sepmix16_4_x4_i", "sepmix32_2_x10_i", "syn_hex_prefix"):
            fid = fmt_id(fname)
            mr = [a for (n_, a) in fmt_tags()[fid]["calls"] if n_ == "mantissa_radix"][0]
            for ty in gens.INT_TYPES:
                ep = cs.new_ep()
                for v in gens.boundary_ints(ty, mr, rng, 2)[::3]:
                    s_ = gens.int_numeral(v, mr, lower=(v % 2 == 0))
                    cs.parse(ep, ty, fid, s_, ["rf"], wo=True, tag="mixed-radix-format")
                    cs.parse(ep, ty, fid, s_ + "9z", ["rf"], wo=True, partial=True)
    # digit classification is exhaustive over bytes: every byte value between two digits and after a sign, every radix
    # (S-C04-b: control bytes 0x10..0x19 folded onto '0'..'9' by a case-folding shortcut)
    for r in range(2, 37):
        rc = radix_cfgs(r, cfgs)
        if not rc:
            continue
        f = radix_fmt(r) if r != 10 else 0
        ty = ["u32", "i64", "u8", "i16", "u128"][r % 5]
        ep = cs.new_ep()
        for b in range(256):
            if b % 32 == 0:
                ep = cs.new_ep()
            c = [rc[b % len(rc)]]
            cs.parse(ep, ty, f, [49, b, 49], c, wo=(r != 10), tag="every-byte")
            if b % 2:
                cs.parse(ep, ty, f, [49, b, 49], c, wo=(r != 10), partial=True)
            else:
                cs.parse(ep, ty, f, [b, 49], c, wo=(r != 10))
    models = [("MC_BigNat.tla", "MC_BigNat.cfg", 4, 600), ("MC_IntParse.tla", "MC_IntParse.cfg" if quick else "MC_IntParse_thorough.cfg", 8, 1800)]
    return cs, models, {"input_families": cs.tags, "configurations": cfgs}


# ================================================================================================
# C05

MIXED = [(4, 2), (8, 2), (16, 2), (32, 2), (16, 4)]


def plan_C05(tier, rng):
    cs = Cases()
    quick = tier == "quick"
    cfgs = ["radix", "crf"] if quick else ["radix", "crf", "pow2", "rf"]
    i = 0
    for r in range(2, 37):
        if r == 10:
            continue
        rc = radix_cfgs(r, cfgs)
        f = radix_fmt(r)
        ec = exp_char(r)
        for F in (F64, F32):
            ins = gens.radix_inputs(F, r, rng, (5 if F is F64 else 3) if quick else 40, echar=chr(ec))
            for (s, tag) in ins:
                i += 1
                ep = cs.new_ep()
                o = pf(exp=ec)
                cs.parse(ep, F["name"], f, s, rc, wo=True, opts=o, tag=tag)
                if i % 3 == 0:
                    cs.parse(ep, F["name"], f, s, [rc[i % len(rc)]], wo=True, opts=o, partial=True)
    # digit classification, every byte value in a mantissa and in an exponent position (a byte that is wrongly taken for
    # a digit changes the value or the acceptance)
    for r in ([3, 11, 16, 36] if quick else [x for x in range(2, 37) if x != 10]):
        rc = radix_cfgs(r, cfgs)
        f = radix_fmt(r)
        ec = exp_char(r)
        for b in range(256):
            if b % 32 == 0:
                ep = cs.new_ep()
            c = [rc[b % len(rc)]]
            cs.parse(ep, "f64", f, [49, b, 49], c, wo=True, opts=pf(exp=ec), tag="every-byte")
            cs.parse(ep, "f64", f, [49, ec, 49, b], c, wo=True, opts=pf(exp=ec), partial=(b % 2 == 1))
    for (r, b) in MIXED:
        for xr in (10, b, r):
            f = fmt_id("mixed%d_%d_x%d" % (r, b, xr))
            rc = radix_cfgs(r, cfgs)
            for F in (F64, F32):
                ins = gens.radix_inputs(F, r, rng, 4 if quick else 40, base=b, xr=xr, echar="^")
                for (s, tag) in ins:
                    i += 1
                    ep = cs.new_ep()
                    o = pf(exp=94)
                    cs.parse(ep, F["name"], f, s, rc, wo=True, opts=o, tag="mixed-" + tag)
                for s in ("1.8^3", "1^3", "0.8^1", "1.8^-3", "A^0", "a.8^1", "1^0"):
                    ep = cs.new_ep()
                    if xr == 10:
                        cs.parse(ep, F["name"], f, s, rc, wo=True, opts=pf(exp=94), tag="mixed-hexfloat")
    models = [("MC_BigNat.tla", "MC_BigNat.cfg", 4, 600), ("MC_Ieee.tla", "MC_Ieee.cfg", 4, 900)]
    return cs, models, {"input_families": cs.tags, "configurations": cfgs}


# ================================================================================================
# shared corpora for the relational properties

def decimal_float_corpus(rng, n_half, n_rand, longs=4):
    out = []
    for F in (F64, F32):
        allb = list(range(F["emin"], F["emax"] + 1))
        out += [(s, F) for (s, t) in gens.halfway_inputs(F, rng, samp(rng, allb, n_half), pats_per=1, long_ok=False, variants=False)]
        out += [(s, F) for (s, t) in gens.lemire_row_inputs(F, rng, samp(rng, range(-300, 300) if F is F64 else range(-40, 38), max(4, n_half // 3)), per=1)]
        out += [(s, F) for (s, t) in samp(rng, gens.fastpath_boundary(F, rng), max(10, n_half // 2))]
        out += [(s, F) for (s, t) in gens.edge_inputs(F, rng)]
        out += [(s, F) for (s, t) in gens.underflow_boundary(F, 10, 10, 10, "e")]
        out += [(s, F) for (s, t) in gens.random_decimal(rng, n_rand)]
        out += [(s, F) for (s, t) in gens.random_long_decimal(rng, longs)]
        out += [(s, F) for (s, t) in gens.zero_padded_decimal(rng, max(12, n_half // 2))]
    return out


JUNK = ["", "+", "-", ".", "e", "e5", ".e5", "1e", "1e+", "1e-", "+.", "-.e", "1.", ".5", "1.e5", "1..2", "1e5e5", "1e5.5", "--1",
        "+-1", "1+", "1-", "1e++5", " 1", "1 ", "1_0", "0x10", "1,5", "inf", "+inf", "-inf", "infinity", "INFINITY", "Infinit",
        "infinityy", "in", "i", "nan", "NaN", "-NaN", "+nan", "na", "nann", "n", "NAN(", "1nan", "nan1", "inf1", "1inf", "infe5",
        "1e5x", "1.5e3xyz", "12345678901234567890123456789012345678901234567890x", "0.0.0", "00", "-00.00e00", "1e0000000000005",
        "1E5", "1E+5", "1e٣", "\xff", "1\x00", "\x001", "1e5\x80", "+1.2.3", "٣"]


def junk_bytes():
    out = []
    for j in JUNK:
        out.append(list(j.encode("utf-8").decode("unicode_escape").encode("latin-1", "replace")) if "\\x" in j else list(j.encode("utf-8")))
    return out


def random_bytes(rng, n, maxlen=40):
    out = []
    alpha = list(b"0123456789+-.eE_xXnNaAiIfFtTyY \x00\xff^p") + [0x80, 0xc3, 0xa9]
    for _ in range(n):
        ln = rng.choice([0, 1, 2, 3, 4, 6, 7, 8, 9, 12, 16, 17, 24, 33, maxlen])
        mode = rng.random()
        if mode < 0.5:
            out.append([rng.choice(alpha) for _ in range(ln)])
        elif mode < 0.8:
            out.append([rng.choice(b"0123456789") for _ in range(ln)] + [rng.choice(alpha)] + [rng.choice(b"0123456789.e") for _ in range(rng.randrange(0, 5))])
        else:
            out.append([rng.randrange(256) for _ in range(ln)])
    return out


# ================================================================================================
# C10

def plan_C10(tier, rng):
    cs = Cases()
    quick = tier == "quick"
    cfgs = ["default", "rf"] if quick else ["default", "rf", "compact", "crf", "pow2", "radix", "format"]
    floats = [B(s) for (s, F) in decimal_float_corpus(rng, 25 if quick else 300, 150 if quick else 3000, longs=3 if quick else 40)]
    inputs = junk_bytes() + random_bytes(rng, 700 if quick else 20000) + floats
    i = 0
    tys = list(gens.INT_TYPES) + ["f32", "f64"]
    for data in inputs:
        i += 1
        ep = cs.new_ep()
        place = "start" if i % 3 == 0 else "end"
        tsel = ["f64", "f32" if i % 2 else "i64", tys[i % 12]]
        for ty in tsel:
            isf = ty in ("f32", "f64")
            cs.parse(ep, ty, 0, data, [cfgs[i % len(cfgs)]], place=place, tag="standard")
            cs.parse(ep, ty, 0, data, [cfgs[(i + 1) % len(cfgs)]], partial=True, place=place)
            cs.parse(ep, ty, 0, data, [cfgs[(i + 1) % len(cfgs)]], wo=True, place=place, api="facade" if i % 5 == 0 else "core")
        # a radix format too
        r = rng.choice([2, 3, 8, 16, 27, 36])
        rc = radix_cfgs(r, cfgs)
        if rc:
            ty = rng.choice(["f64", "f32", "u8", "i128", "u64"])
            isf = ty in ("f32", "f64")
            o = pf(exp=exp_char(r)) if isf else dict(PI_DEFAULT)
            cs.parse(ep, ty, radix_fmt(r), data, [rc[i % len(rc)]], wo=True, opts=o, place=place, tag="radix")
            cs.parse(ep, ty, radix_fmt(r), data, [rc[i % len(rc)]], wo=True, opts=o, partial=True, place=place)
    # formats with digit separators / syntax flags: signs, separators and points in front of 3..9 digit runs that end
    # at the guard page (the 4- and 8-byte reads), multi-digit integer paths switched on
    Fm = fmt_tags()
    flagged = [f for f in Fm.values() if ("sep" in f["tags"] or "syntax" in f["tags"]) and "hex" not in f["tags"]]
    for f in (samp(rng, flagged, 40) if quick else flagged):
        sepc = 39 if f["name"] == "sep_apostrophe" else 95
        for _ in range(6 if quick else 30):
            i += 1
            ep = cs.new_ep()
            nd = rng.choice([3, 4, 5, 7, 8, 9, 12])
            digs_ = "".join(rng.choice("0123456789") for _ in range(nd))
            pre = rng.choice(["", "+", "-", chr(sepc), "+" + chr(sepc), "1" + chr(sepc), "0.", "1" + chr(sepc) + "2" + chr(sepc), "."])
            post = rng.choice(["", "", chr(sepc), ".5", "e5", chr(sepc) + "1"])
            data = B(pre + digs_ + post)
            place = "end" if i % 4 else "start"
            for ty in ("u64", "i32", "f64", "f32"):
                isf = ty in ("f32", "f64")
                o = opts_for_fmt(f) if isf else {"nmd": False}
                cs.parse(ep, ty, f["id"], data, ["rf"], wo=True, opts=o, place=place, tag="flagged-format")
                cs.parse(ep, ty, f["id"], data, ["rf"], wo=True, opts=o, partial=True, place=place)
    # every decimal exponent around and far beyond both ends of every power table, short and long mantissas, in the
    # builds that select different algorithms (Lemire / Bellerophon); S-C10-c: table index just below the smallest power
    import math
    swc = ["default", "rf", "compact", "crf"]
    for q in range(-420, 421):
        i += 1
        ep = cs.new_ep()
        for (k, m) in enumerate(("1", "12345678901234567890", "0.00001", "9.999999999999999999999")):
            ty = "f32" if (i + k) % 3 == 0 else "f64"
            c = [swc[(i + k) % len(swc)]]
            cs.parse(ep, ty, 0, B("%se%d" % (m, q)), c, partial=(k % 2 == 1), tag="exponent-sweep")
    for r in ([3, 7, 12, 36, 2, 16] if quick else [x for x in range(2, 37) if x != 10]):
        rc = radix_cfgs(r, ["rf", "crf"])
        ec = exp_char(r)
        for F in (F64, F32):
            lo = int(F["emin"] * math.log(2) / math.log(r))
            hi = int((F["emax"] + F["p"]) * math.log(2) / math.log(r))
            for q in list(range(lo - 70, lo + 8)) + list(range(hi - 8, hi + 50)):
                i += 1
                ep = cs.new_ep()
                for (k, m) in enumerate(("1", gens.DIG[r - 1] * 30)):
                    cs.parse(ep, F["name"], radix_fmt(r), B("%s%s%s" % (m, chr(ec), gens.exp_str(q, r))), [rc[(i + k) % len(rc)]],
                             wo=True, opts=pf(exp=ec), partial=(k == 1), tag="exponent-sweep-radix")
    models = [("MC_IntParse.tla", "MC_IntParse.cfg" if quick else "MC_IntParse_thorough.cfg", 8, 1800)]
    return cs, models, {"input_families": cs.tags, "configurations": cfgs + ["compact", "crf"], "profiles": ["release", "dbg"]}


# ================================================================================================
# C11

def plan_C11(tier, rng):
    cs = Cases()
    quick = tier == "quick"
    cfgs = ["default", "rf"] if quick else ["default", "rf", "compact", "crf"]
    floats = [B(s) for (s, F) in decimal_float_corpus(rng, 20 if quick else 200, 100 if quick else 2000, longs=2 if quick else 20)]
    # every accepted float followed by each kind of trailing byte
    tails = [B(t) for t in ["", "e", "e+", "E-", ".", "..", "_", "x", " ", "+", "-", "e5", "inf", "n", "\x00"]]
    inputs = junk_bytes() + random_bytes(rng, 400 if quick else 8000)
    for f in samp(rng, floats, min(len(floats), 120 if quick else 2000)):
        inputs.append(f + rng.choice(tails))
    for f in ["1", "12", "1.5", "1.5e3", "1e5", "-0", "+7.", ".5", "inf", "nan", "infinity", "NaN", "-inf"]:
        for t in tails:
            inputs.append(B(f) + t)
    i = 0
    tys = list(gens.INT_TYPES)
    for data in inputs:
        i += 1
        ep = cs.new_ep()
        c = cfgs[i % len(cfgs)]
        for ty in ("f64", "f32" if i % 2 else tys[i % 12], tys[(i * 7) % 12]):
            wo = (i % 4 == 0)
            cs.parse(ep, ty, 0, data, [c], wo=wo, tag="standard")
            cs.parse(ep, ty, 0, data, [c], wo=wo, partial=True, want_prefix=True)
        r = rng.choice([2, 5, 16, 36])
        rc = radix_cfgs(r, cfgs)
        if rc:
            ty = rng.choice(["f64", "u32", "i64"])
            o = pf(exp=exp_char(r)) if ty == "f64" else dict(PI_DEFAULT)
            cs.parse(ep, ty, radix_fmt(r), data, [rc[0]], wo=True, opts=o, tag="radix")
            cs.parse(ep, ty, radix_fmt(r), data, [rc[0]], wo=True, opts=o, partial=True, want_prefix=True)

    # formats with syntax flags and digit separators: the automaton's per-transition witnesses, each also
    # followed by a byte that cannot continue a number
    W, wmodel = _witness.scan_witnesses()
    Fm = fmt_tags()
    wall = [w for w in W if w["f"] != 0 and len(w["s"]) >= 1]
    # every witness of one or two bytes (a lone sign, a sign and a point, ... under every flagged format: where the
    # 'no digits at all' cases live), and a sample of the longer ones
    wshort = [w for w in wall if len(w["s"]) <= 2]
    wlong = [w for w in wall if len(w["s"]) > 2]
    wsel = wshort + samp(rng, wlong, min(len(wlong), 9000 if quick else 150000))
    for w in wsel:
        i += 1
        f = Fm[w["f"]]
        if i % 6 == 0:
            ep = cs.new_ep()
        isf = w["k"] == "float"
        ty = ("f64" if i % 3 else "f32") if isf else ("i32" if i % 2 else "u64")
        o = opts_for_fmt(f) if isf else dict(PI_DEFAULT)
        data = list(w["s"]) + ([rng.choice([59, 32, 122, 43])] if i % 2 else [])
        cs.parse(ep, ty, w["f"], data, ["rf"], wo=True, opts=o, tag="witness")
        cs.parse(ep, ty, w["f"], data, ["rf"], wo=True, opts=o, partial=True, want_prefix=True)

    # special strings, with separators where the format allows them inside specials, alone and followed by other bytes
    # (S-C11-c: a length shortcut in the complete parser's special fallback only)
    specials = ["nan", "inf", "infinity", "NaN", "INF", "Infinity", "in_finity", "i_n_f", "n_a_n", "infinity_", "_nan", "nan_", "n__an",
                "i_n_f_i_n_i_t_y", "nan______", "_inf_", "infinit", "infi", "na"]
    for fname in ("STANDARD", "sep_special", "sep_all_flags", "syn_case_sensitive_special", "sep_all_i"):
        fid_ = fmt_id(fname)
        for sp_ in specials:
            for sign in ("", "-", "+"):
                for tail in ("", ";", "x", "_", "1", "e5", "."):
                    i += 1
                    if quick and i % 2:
                        continue
                    if i % 8 == 0:
                        ep = cs.new_ep()
                    data = B(sign + sp_ + tail)
                    ty = "f32" if i % 3 == 0 else "f64"
                    cs.parse(ep, ty, fid_, data, ["rf"], wo=True, opts=pf(), tag="special-strings")
                    cs.parse(ep, ty, fid_, data, ["rf"], wo=True, opts=pf(), partial=True, want_prefix=True)

    def phase2(events, cs2):
        # after seeing n: the complete parser on the first n bytes
        for e in events:
            if e.get("want_prefix") and e["res"].get("k") == "ok" and 0 < e["res"]["n"] < e["len"]:
                cs2.parse(e["ep"], e["ty"], e["fmt"], e["in"][:e["res"]["n"]], [e["_cfgname"]], wo=e["wo"], opts=e["opts"],
                          tag="prefix")
    models = [("MC_IntParse.tla", "MC_IntParse.cfg" if quick else "MC_IntParse_thorough.cfg", 8, 1800), wmodel]
    return cs, models, {"input_families": cs.tags, "configurations": cfgs, "phase2": phase2}


# ================================================================================================
# C16

def plan_C16(tier, rng):
    cs = Cases()
    quick = tier == "quick"
    cfgs = ["default", "compact", "rf", "crf"] if quick else ["default", "compact", "rf", "crf", "pow2", "radix", "format", "nostd", "cf"]
    floats = decimal_float_corpus(rng, 30 if quick else 400, 200 if quick else 5000, longs=3 if quick else 30)
    i = 0
    for (s, F) in floats:
        i += 1
        ep = cs.new_ep()
        cs.parse(ep, F["name"], 0, s, cfgs, tag="parse-float")
        if i % 3 == 0:
            cs.parse(ep, F["name"], 0, s, cfgs, partial=True)
    for data in junk_bytes() + random_bytes(rng, 200 if quick else 5000):
        i += 1
        ep = cs.new_ep()
        ty = ["f64", "f32", "i32", "u64", "i8", "u128"][i % 6]
        cs.parse(ep, ty, 0, data, cfgs, tag="parse-junk")
        cs.parse(ep, ty, 0, data, cfgs, partial=True)
    for ty in gens.INT_TYPES:
        ep = cs.new_ep()
        for s in samp(rng, c04_strings(ty, 10, rng, True), 12 if quick else 40):
            data = list(s) if isinstance(s, bytes) else B(s)
            cs.parse(ep, ty, 0, data, cfgs, tag="parse-int")
        for v in samp(rng, gens.boundary_ints(ty, 10, rng, 6), 10 if quick else 25):
            cs.write(ep, ty, 0, str(v), cfgs, tag="write-int")
    for F in (F64, F32):
        vals = gens.float_values(F, rng, nrand=150 if quick else 4000, per_binade=0,
                                 binades=samp(rng, range((1 << F["ebits"]) - 1), 60 if quick else 250))
        vals += gens.endpoint_family(F, rng, 19 if F is F64 else 8, 22 if F is F64 else 10)
        # exact powers of two (the shorter-interval case of Dragonbox, the asymmetric boundary of Grisu): all f32, a sample of f64
        nbp = (1 << F["ebits"]) - 1
        pows = list(range(1, nbp)) if (F is F32 or not quick) else samp(rng, range(1, nbp), 300)
        vals += [("%x" % (ef << F["mbits"]), "power-of-two") for ef in pows]
        for (bits, tag) in vals:
            ep = cs.new_ep()
            cs.write(ep, F["name"], 0, bits, cfgs, tag="write-float", want_back=True)

    def phase2(events, cs2):
        # compact output must parse (in the default build) to the same value
        for e in events:
            if e.get("want_back") and e["feat"]["compact"] and e["res"].get("k") == "ok":
                cs2.parse(e["ep"], e["ty"], 0, e["res"]["out"], ["default"], back=e["id"], exact=True, tag="compact-parse-back")
    return cs, [], {"input_families": cs.tags, "configurations": cfgs, "phase2": phase2}


# ================================================================================================
# C17

def plan_C17(tier, rng):
    cs = Cases()
    quick = tier == "quick"
    cfgs = ["default", "rf"] if quick else ["default", "rf", "compact", "crf"]
    i = 0
    for (s, F) in decimal_float_corpus(rng, 15 if quick else 200, 120 if quick else 3000, longs=2):
        i += 1
        ep = cs.new_ep()
        c = [cfgs[i % len(cfgs)]]
        for partial in (False, True):
            for wo in (False, True):
                cs.parse(ep, F["name"], 0, s, c, partial=partial, wo=wo, tag="parse")
                cs.parse(ep, F["name"], 0, s, c, partial=partial, wo=wo, api="facade")
    for data in junk_bytes() + random_bytes(rng, 150 if quick else 4000):
        i += 1
        ep = cs.new_ep()
        c = [cfgs[i % len(cfgs)]]
        ty = ["f64", "f32", "i32", "u64", "i8", "u128", "isize"][i % 7]
        for partial in (False, True):
            cs.parse(ep, ty, 0, data, c, partial=partial, tag="parse-junk")
            cs.parse(ep, ty, 0, data, c, partial=partial, api="facade")
    for ty in gens.INT_TYPES:
        for r in (10, 2, 7, 16, 36):
            rc = radix_cfgs(r, cfgs)
            if not rc:
                continue
            ep = cs.new_ep()
            for v in samp(rng, gens.boundary_ints(ty, r, rng, 4), 6 if quick else 20):
                wo = (r != 10) or (v % 2 == 0)
                cs.write(ep, ty, radix_fmt(r), str(v), [rc[0]], wo=wo, tag="write-int")
                cs.write(ep, ty, radix_fmt(r), str(v), [rc[0]], wo=wo, api="facade")
    optsets = [wf(), wf(max=3), wf(min=25), wf(pos=300, neg=-300), wf(pos=1, neg=-1), wf(trim=True), wf(exp=69, point=44),
               wf(nan=B("nan"), inf=B("Infinity")), wf(max=1, round="truncate"), wf(min=60, neg=-320, pos=320)]
    for F in (F64, F32):
        vals = gens.float_values(F, rng, nrand=80 if quick else 2000, per_binade=0,
                                 binades=samp(rng, range((1 << F["ebits"]) - 1), 40 if quick else 250))
        for (bits, tag) in vals:
            i += 1
            ep = cs.new_ep()
            c = [cfgs[i % len(cfgs)]]
            cs.write(ep, F["name"], 0, bits, c, tag="write-float")
            cs.write(ep, F["name"], 0, bits, c, api="facade")
            o = optsets[i % len(optsets)]
            cs.write(ep, F["name"], 0, bits, c, wo=True, opts=o, tag="write-float-opts")
            cs.write(ep, F["name"], 0, bits, c, wo=True, opts=o, api="facade")
            if "radix" in vlib.CONFIGS[c[0]]:
                r = rng.choice([2, 3, 16, 36])
                o2 = wf(exp=exp_char(r))
                cs.write(ep, F["name"], radix_fmt(r), bits, c, wo=True, opts=o2, tag="write-float-radix")
                cs.write(ep, F["name"], radix_fmt(r), bits, c, wo=True, opts=o2, api="facade")
    # the facade sizes its buffer from buffer_size_const: options whose longest output is exactly that bound (asymmetric
    # breaks, min_significant_digits >= 28) on negative values whose exponent sits on the negative break (S-C17-b)
    for (ng, ps, mn) in ((-20, 9, 50), (-100, 9, 40), (-30, 5, 28), (-300, 9, 300), (-324, 1, 28), (-14, 2, 64), (-45, 9, 30)):
        o = wf(neg=ng, pos=ps, min=mn)
        for F in (F64, F32):
            for mant in ("-1.2345678901234567", "-9.999999999999999", "1.5", "-1"):
                for dq in (0, 1, -1):
                    try:
                        x = float("%se%d" % (mant, ng + dq))
                    except OverflowError:
                        continue
                    if x == 0.0:
                        continue
                    i += 1
                    ep = cs.new_ep()
                    c = [cfgs[i % len(cfgs)]]
                    bits = gens.pyfloat_bits(F, x)
                    cs.write(ep, F["name"], 0, bits, c, wo=True, opts=o, tag="bound-tight-options")
                    cs.write(ep, F["name"], 0, bits, c, wo=True, opts=o, api="facade")
    # special strings with every byte value inside: whenever the code calls the options valid, what is written is ASCII
    # (S-C17-c: a case-folding mask that lets Latin-1 letters through the letter check of the special strings)
    for b in range(256):
        if b % 16 == 0:
            ep = cs.new_ep()
        o = wf(nan=[78, b, 78], inf=[105, b, 102])
        c = [cfgs[b % len(cfgs)]]
        for bits in ("7ff8000000000000", "fff0000000000000"):
            cs.write(ep, "f64", 0, bits, c, wo=True, opts=o, tag="any-byte-special-string")
            if b % 4 == 0:
                cs.write(ep, "f64", 0, bits, c, wo=True, opts=o, api="facade")
    # punctuation bytes from the whole byte range: whenever the code calls the options valid, everything written is ASCII
    for b in list(range(0, 256, 5)) + [0x7f, 0x80, 0xb7, 0xff, 0x09, 0x20]:
        ep = cs.new_ep()
        for o in (wf(point=b), wf(exp=b, pos=2)):
            for x in (1.5, 1e30, -2.5e-10):
                cs.write(ep, "f64", 0, gens.pyfloat_bits(F64, x), [cfgs[b % len(cfgs)]], wo=True, opts=o, tag="any-byte-punctuation")
                cs.write(ep, "f64", 0, gens.pyfloat_bits(F64, x), [cfgs[b % len(cfgs)]], wo=True, opts=o, api="facade")
    return cs, [], {"input_families": cs.tags, "configurations": cfgs}


# ================================================================================================
# C19

def plan_C19(tier, rng):
    cs = Cases()
    quick = tier == "quick"
    cfgs = ["default", "compact", "rf"] if quick else ["default", "compact", "rf", "crf"]
    i = 0
    corpus = decimal_float_corpus(rng, 60 if quick else 600, 250 if quick else 6000, longs=4 if quick else 40)
    for (s, F) in corpus:
        i += 1
        ep = cs.new_ep()
        for c in cfgs:
            cs.parse(ep, F["name"], 0, s, [c], wo=True, opts=pf(), tag="decimal")
            cs.parse(ep, F["name"], 0, s, [c], wo=True, opts=pf(lossy=True))
        if i % 4 == 0:
            c = cfgs[i % len(cfgs)]
            cs.parse(ep, F["name"], 0, s, [c], wo=True, opts=pf(), partial=True)
            cs.parse(ep, F["name"], 0, s, [c], wo=True, opts=pf(lossy=True), partial=True)
    # mantissas that fit the 64-bit register but not the float (no truncation, not an exact fast path): whatever shortcut a
    # lossy build takes for them must stay within one ulp (S-C19-b: chained roundings in the 'disguised fast path' window)
    for F in (F64, F32):
        nd_lo, nd_hi = (16, 19) if F is F64 else (8, 19)
        # (window of decimal exponents, how many): dense just beyond the exact fast path on both sides, thinner elsewhere
        wins = [((20, 40), 3000), ((-42, -20), 1500), ((-20, 20), 800), ((-345, 310), 1500)] if F is F64 else \
               [((8, 20), 1500), ((-22, -8), 800), ((-8, 8), 400), ((-60, 45), 700)]
        for ((lo, hi), cnt) in wins:
            for _ in range(cnt if quick else cnt * 10):
                i += 1
                nd = rng.randrange(nd_lo, nd_hi + 1)
                m = rng.randrange(10 ** (nd - 1), 10 ** nd)
                s = "%de%d" % (m, rng.randrange(lo, hi + 1))
                if i % 3 == 0:
                    k = rng.randrange(1, nd)
                    s = "%s.%se%d" % (str(m)[:k], str(m)[k:], rng.randrange(lo, hi + 1) + nd - k)
                ep = cs.new_ep()
                c = cfgs[i % len(cfgs)]
                cs.parse(ep, F["name"], 0, s, [c], wo=True, opts=pf(), tag="register-sized-mantissa")
                cs.parse(ep, F["name"], 0, s, [c], wo=True, opts=pf(lossy=True))
    for data in junk_bytes():
        ep = cs.new_ep()
        cs.parse(ep, "f64", 0, data, cfgs, wo=True, opts=pf(), tag="junk")
        cs.parse(ep, "f64", 0, data, cfgs, wo=True, opts=pf(lossy=True))
    for r in ([2, 8, 16, 3, 12, 36] if quick else [2, 4, 8, 16, 32, 3, 7, 12, 20, 36]):
        rc = radix_cfgs(r, cfgs)
        if not rc:
            continue
        ec = exp_char(r)
        for F in (F64, F32):
            for (s, tag) in gens.radix_inputs(F, r, rng, 4 if quick else 30, echar=chr(ec)):
                ep = cs.new_ep()
                cs.parse(ep, F["name"], radix_fmt(r), s, rc, wo=True, opts=pf(exp=ec), tag="radix")
                cs.parse(ep, F["name"], radix_fmt(r), s, rc, wo=True, opts=pf(exp=ec, lossy=True))
    models = [("MC_Ieee.tla", "MC_Ieee.cfg", 4, 900)]
    if not quick:
        models.append(("MC_Pipeline.tla", "MC_Pipeline_ok.cfg", 8, 1800))
    return cs, models, {"input_families": cs.tags, "configurations": cfgs}


# ================================================================================================
# writers: shared value sets

def writer_floats(F, rng, nbin, nrand, extra_ints=True):
    nb = (1 << F["ebits"]) - 1
    vals = gens.float_values(F, rng, nrand=nrand, per_binade=1, binades=samp(rng, range(nb), min(nb, nbin)))
    p = F["p"]
    if extra_ints:
        for v in (1, 2, 3, 7, 8, 9, 10, 15, 16, 17, 35, 36, 37, 99, 100, 255, 256, 1000, 12345, 65535, 65536, 10 ** 6, 10 ** 9,
                  (1 << (p - 1)) - 1, (1 << p) - 1, (1 << p) - 2):
            vals.append((gens.pyfloat_bits(F, float(v)), "small-int"))
        for x in (0.5, 0.25, 0.1, 0.3, 1.5, 2.5, 9.5, 0.999, 9.999999, 99.95, 0.000123, 123456.789, 1e-5, 9.9e-6, 1e9, 9.99e9, 1e10,
                  1e-7, 1.5e300 if F is F64 else 1.5e30, 4.9e-324 if F is F64 else 1.4e-45):
            vals.append((gens.pyfloat_bits(F, x), "handpicked"))
    return vals


def parse_opts_from_write(o):
    return pf(exp=o["exp"], point=o["point"], nan=o["nan"], inf=o["inf"], infinity=o["inf"])


def add_back(events, cs2, cfgsel=None):
    """phase 2 of the writers: parse what was written, same format, options derived from the write options"""
    for e in events:
        if e.get("want_back") and e["op"] == "write" and e["res"].get("k") == "ok":
            isf = e["ty"] in ("f32", "f64")
            o = parse_opts_from_write(e["opts"]) if isf else dict(PI_DEFAULT)
            cs2.parse(e["ep"], e["ty"], e["fmt"], e["res"]["out"], [cfgsel or e["_cfgname"]], wo=True, opts=o, back=e["id"], tag="parse-back")


def near_power_floats(F, r, rng, n):
    """floats just below / at / above r^k (carry and leading-zero logic of the generic writer)"""
    import math
    out = []
    kmin = int(F["emin"] * math.log(2) / math.log(r)) + 1
    kmax = int((F["emax"] + F["p"]) * math.log(2) / math.log(r)) - 1
    for k in samp(rng, range(kmin, kmax + 1), min(n, kmax - kmin + 1)):
        from fractions import Fraction
        v = Fraction(r) ** k
        e2 = v.numerator.bit_length() - v.denominator.bit_length()
        e = max(e2 - F["p"], F["emin"])
        m = int(v / Fraction(2) ** e)
        while m >= (1 << F["p"]):
            m >>= 1
            e += 1
        for mm in (m - 1, m, m + 1):
            if 0 < mm < (1 << F["p"]) and (mm >= (1 << (F["p"] - 1)) or e == F["emin"]) and e <= F["emax"]:
                out.append((gens.float_bits(F, mm, e), "near-radix-power"))
    return out


def near_fraction_floats(F, r, rng, n):
    """floats within a few ulp of n + j / r^k: the digit generation ends with a round-up whose carry runs back through
    the fraction digits (S-C07-b: a carry that reaches the first fraction digit)"""
    import struct
    out = []
    ints = [1, 2, 3, 7, r - 1, r, r + 1, r * r + 1, 1 << 20, 1000003]
    for _ in range(n):
        k = rng.choice([1, 1, 1, 2, 2, 3])
        j = rng.randrange(1, r ** k)
        x = rng.choice(ints) + j / float(r ** k)
        if F["p"] == 24:
            b = struct.unpack("<I", struct.pack("<f", x))[0]
        else:
            b = struct.unpack("<Q", struct.pack("<d", x))[0]
        for d in (-2, -1, 0, 1):
            out.append(("%x" % (b + d), "near-fraction"))
    return out


# ================================================================================================
# C06

def plan_C06(tier, rng):
    cs = Cases()
    quick = tier == "quick"
    cfgs = ["pow2", "radix"] if quick else ["pow2", "radix", "rf", "crf"]
    fmts = [(r, radix_fmt(r)) for r in (2, 4, 8, 16, 32)]
    for (r, b) in MIXED:
        for xr in (10, b):
            fmts.append((r, fmt_id("mixed%d_%d_x%d" % (r, b, xr))))
    i = 0
    for (r, f) in fmts:
        ec = exp_char(r)
        optsets = [wf(exp=ec), wf(exp=ec, pos=1200, neg=-1200), wf(exp=ec, pos=1, neg=-1)]
        for F in (F64, F32):
            for (bits, tag) in writer_floats(F, rng, 60 if quick else 2100, 40 if quick else 1500):
                i += 1
                ep = cs.new_ep()
                c = [cfgs[i % len(cfgs)]]
                cs.write(ep, F["name"], f, bits, c, wo=True, opts=optsets[0], tag=tag, want_back=True)
                cs.write(ep, F["name"], f, bits, c, wo=True, opts=optsets[1 + i % 2], want_back=(i % 3 == 0))

    def phase2(events, cs2):
        add_back(events, cs2)
    models = [("MC_BigNat.tla", "MC_BigNat.cfg", 4, 600)]
    return cs, models, {"input_families": cs.tags, "configurations": cfgs, "phase2": phase2}


# ================================================================================================
# C07

GENERIC = [r for r in range(3, 37) if r not in (4, 8, 10, 16, 32)]


def plan_C07(tier, rng):
    cs = Cases()
    quick = tier == "quick"
    cfgs = ["radix"] if quick else ["radix", "rf", "crf"]
    i = 0
    for r in GENERIC:
        f = radix_fmt(r)
        ec = exp_char(r)
        optsets = [wf(exp=ec), wf(exp=ec, pos=800, neg=-800), wf(exp=ec, pos=1, neg=-1)]
        for F in (F64, F32):
            vals = writer_floats(F, rng, 14 if quick else 500, 10 if quick else 400)
            vals += near_power_floats(F, r, rng, 6 if quick else 200)
            vals += near_fraction_floats(F, r, rng, 10 if quick else 300)
            for k in range(1, 12):
                for d in (-1, 0, 1):
                    v = r ** k + d
                    if v < (1 << F["p"]):
                        vals.append((gens.pyfloat_bits(F, float(v)), "radix-power-int"))
            for (bits, tag) in vals:
                i += 1
                ep = cs.new_ep()
                c = [cfgs[i % len(cfgs)]]
                cs.write(ep, F["name"], f, bits, c, wo=True, opts=optsets[0], tag=tag, want_back=True)
                if i % 2 == 0:
                    cs.write(ep, F["name"], f, bits, c, wo=True, opts=optsets[1 + (i // 2) % 2], want_back=True)
                if i % 3 == 0:
                    # digit-count options: what is written must still be a numeral of the format (every byte written by the
                    # writer: a count that covers stale buffer bytes shows up as a malformed output)
                    mx = rng.choice([1, 2, 3, 5, 8, 11, 14, 20])
                    o = dict(optsets[(i // 3) % 3], max=mx, min=rng.choice([0, 0, 1, mx]), round=rng.choice(["round", "truncate"]))
                    cs.write(ep, F["name"], f, bits, c, wo=True, opts=o, tag="digit-options-wellformed")
            # small values in positional notation with many digits allowed
            for _ in range(6 if quick else 60):
                i += 1
                x = rng.uniform(1.0, float(r)) * float(r) ** (-rng.randrange(2, 6))
                bits = gens.pyfloat_bits(F, x)
                ep = cs.new_ep()
                for mx in (rng.randrange(2, 8), rng.randrange(8, 16)):
                    cs.write(ep, F["name"], f, bits, [cfgs[i % len(cfgs)]], wo=True, opts=wf(exp=ec, max=mx, min=rng.choice([0, 3])),
                             tag="digit-options-wellformed")

    def phase2(events, cs2):
        add_back(events, cs2)
    models = [("MC_BigNat.tla", "MC_BigNat.cfg", 4, 600)]
    return cs, models, {"input_families": cs.tags, "configurations": cfgs, "phase2": phase2}


# ================================================================================================
# C08

def plan_C08(tier, rng):
    cs = Cases()
    quick = tier == "quick"
    cfgs = ["default", "rf"] if quick else ["default", "rf", "compact", "crf", "pow2"]
    i = 0
    wopts = [wf(), wf(point=44), wf(exp=69), wf(exp=112, point=44), wf(nan=B("nan"), inf=B("Infinity")), wf(trim=True),
             wf(pos=3, neg=-3), wf(pos=400, neg=-400), wf(min=20), wf(trim=True, pos=2, neg=-2), wf(nan=B("NAN"), inf=B("i")),
             wf(point=95), wf(exp=94, point=33)]
    for F in (F64, F32):
        for (bits, tag) in writer_floats(F, rng, 60 if quick else 1500, 60 if quick else 3000):
            i += 1
            ep = cs.new_ep()
            c = [cfgs[i % len(cfgs)]]
            cs.write(ep, F["name"], 0, bits, c, tag="float-default", want_back=True)
            cs.write(ep, F["name"], 0, bits, c, wo=True, opts=wopts[i % len(wopts)], tag="float-options", want_back=True)
            r = rng.choice([2, 4, 8, 16, 32, 3, 7, 12, 36])
            rc = radix_cfgs(r, c)
            if not rc:                                  # a build with power-of-two radices only
                r = rng.choice([2, 4, 8, 16, 32])
                rc = radix_cfgs(r, c)
            if rc:
                cs.write(ep, F["name"], radix_fmt(r), bits, rc, wo=True, opts=wf(exp=exp_char(r)), tag="float-radix", want_back=True)
    for ty in gens.INT_TYPES:
        for r in ([10, 2, 16, 36, 7] if quick else range(2, 37)):
            rc = radix_cfgs(r, cfgs)
            if not rc:
                continue
            ep = cs.new_ep()
            for v in gens.boundary_ints(ty, r, rng, 3 if quick else 20):
                i += 1
                cs.write(ep, ty, radix_fmt(r), str(v), [rc[i % len(rc)]], wo=True, tag="int", want_back=True)
    # formats with syntax flags (required / forbidden signs, required / no exponent notation, ...) and the prebuilt
    # language formats: writer and parser read the same packed format independently
    Fm = fmt_tags()
    flagged = [f for f in Fm.values() if ("prebuilt" in f["tags"] or f["name"].startswith("syn_")) and "rf" in cfgs]
    for f in flagged:
        r = 10
        for (n_, a_) in f["calls"]:
            if n_ in ("from_radix", "mantissa_radix", "radix"):
                r = a_
        ec = 112 if r == 16 else exp_char(r)
        vals = writer_floats(F64, rng, 3 if quick else 40, 3 if quick else 40, extra_ints=False)
        vals += [(gens.pyfloat_bits(F64, x), "handpicked") for x in (0.0, -0.0, 1.0, -1.5, 0.5, 1e10, 1e-7, 123456.789, 5e-324, 1.7976931348623157e308)]
        for (bits, tag) in vals:
            i += 1
            ep = cs.new_ep()
            for o in (wf(exp=ec), wf(exp=ec, pos=2, neg=-2), wf(exp=ec, trim=True)):
                cs.write(ep, "f64", f["id"], bits, ["rf"], wo=True, opts=o, tag="float-flagged-format", want_back=True)
        ep = cs.new_ep()
        for v in (0, 1, -1, 255, -32768, 2147483647):
            cs.write(ep, "i32", f["id"], str(v), ["rf"], wo=True, tag="int-flagged-format", want_back=True)

    def phase2(events, cs2):
        add_back(events, cs2)
    models = [("MC_FloatWrite.tla", "MC_FloatWrite_quick.cfg" if quick else "MC_FloatWrite.cfg", 8, 1800)]
    return cs, models, {"input_families": cs.tags, "configurations": cfgs, "phase2": phase2}


# ================================================================================================
# C09

def extreme_floats(F):
    p = F["p"]
    vs = [(1, F["emin"]), ((1 << (p - 1)) - 1, F["emin"]), (1 << (p - 1), F["emin"]), ((1 << p) - 1, F["emax"]), (1 << (p - 1), F["emax"]),
          ((1 << p) - 1, -p), ((1 << p) - 1, 0), ((1 << p) - 1, -p - 20), (1 << (p - 1), -(p - 1)), ((1 << (p - 1)) + 1, -(p - 1) - 17)]
    out = [(gens.float_bits(F, m, e), "extreme") for (m, e) in vs]
    for x in (1.2345678901234567e-300 if F is F64 else 1.2345678e-30, 9.999999999999999e22 if F is F64 else 9.999999e22, 0.1, 1e9, 1e10, 1e-5, 9.9999e-6):
        out.append((gens.pyfloat_bits(F, x), "extreme"))
    sign = 1 << (F["bits"] - 1)
    out += [("%x" % (int(b, 16) | sign), t) for (b, t) in out[:6]]
    nb = (1 << F["ebits"]) - 1
    out += [("%x" % (nb << F["mbits"]), "inf"), ("%x" % ((nb << F["mbits"]) | 1), "nan"), ("0", "zero"), ("%x" % sign, "zero")]
    return out


def plan_C09(tier, rng):
    cs = Cases()
    quick = tier == "quick"
    cfgs = ["default", "rf"] if quick else ["default", "rf", "compact", "crf"]
    grid_max = [0, 1, 2, 5, 17, 40, 200] if quick else [0, 1, 2, 3, 5, 9, 16, 17, 18, 40, 64, 200, 500]
    grid_min = [0, 1, 10, 30, 300] if quick else [0, 1, 5, 17, 18, 30, 64, 300, 600]
    grid_neg = [-5, -1, -20, -324, -400] if quick else [-5, -1, -2, -10, -20, -100, -300, -324, -330, -400, -1100]
    grid_pos = [9, 1, 20, 309, 400] if quick else [9, 1, 2, 10, 20, 100, 300, 308, 309, 400, 1100]
    optsets = []
    for mx in grid_max:
        for mn in grid_min:
            if mx and mn and mn > mx:
                continue
            for ng in grid_neg:
                for ps in grid_pos:
                    optsets.append((mx, mn, ng, ps))
    rng.shuffle(optsets)
    if quick:
        optsets = optsets[:220]
    i = 0
    for (mx, mn, ng, ps) in optsets:
        i += 1
        o = wf(max=mx, min=mn, neg=ng, pos=ps, round="truncate" if i % 5 == 0 else "round", trim=(i % 7 == 0))
        for F in (F64, F32):
            ex = extreme_floats(F)
            for (bits, tag) in (samp(rng, ex, 9) if quick else ex):
                ep = cs.new_ep()
                c = [cfgs[i % len(cfgs)]]
                place = "start" if i % 2 else "end"
                cs.write(ep, F["name"], 0, bits, c, wo=True, opts=o, buflen={"sym": "bsc", "d": 0}, place=place, tag="bound", want_len=True)
                cs.write(ep, F["name"], 0, bits, c, wo=True, opts=o, buflen={"sym": "bsc", "d": -1}, place=place)
                if i % 4 == 0:
                    cs.write(ep, F["name"], 0, bits, c, wo=True, opts=o, api="facade", tag="facade")
    # radix writers and integers with their documented bounds
    for r in ([2, 3, 8, 16, 36] if quick else range(2, 37)):
        rc = radix_cfgs(r, cfgs)
        if not rc or r == 10:
            continue
        f = radix_fmt(r)
        ec = exp_char(r)
        for F in (F64, F32):
            for (bits, tag) in extreme_floats(F):
                i += 1
                ep = cs.new_ep()
                for o in (wf(exp=ec), wf(exp=ec, pos=1200, neg=-1200), wf(exp=ec, max=3), wf(exp=ec, min=70)):
                    cs.write(ep, F["name"], f, bits, [rc[i % len(rc)]], wo=True, opts=o, buflen={"sym": "bsc", "d": 0}, tag="radix-bound", want_len=True)
        for ty in gens.INT_TYPES:
            lo, hi = gens.int_range(ty)
            ep = cs.new_ep()
            for v in (lo, hi, 0, lo + 1):
                i += 1
                cs.write(ep, ty, f, str(v), [rc[i % len(rc)]], wo=True, buflen={"sym": "fs", "d": 0}, tag="int-bound", want_len=True)
    for r in range(2, 37):
        rc = radix_cfgs(r, cfgs)
        if not rc or r == 10:
            continue
        for ty in ("u128", "i128", "u64", "i64"):
            lo, hi = gens.int_range(ty)
            ep = cs.new_ep()
            for v in (hi, lo, hi // 3, hi - 1):
                i += 1
                for place in ("end", "start"):
                    cs.write(ep, ty, radix_fmt(r), str(v), [rc[i % len(rc)]], wo=True, buflen={"sym": "fs", "d": 0}, place=place, tag="int-bound-all-radices")
    for ty in gens.INT_TYPES:
        lo, hi = gens.int_range(ty)
        ep = cs.new_ep()
        for v in (lo, hi, 0, -1 if lo < 0 else 1):
            for c in cfgs:
                cs.write(ep, ty, 0, str(v), [c], buflen={"sym": "fsd", "d": 0}, tag="int-bound", want_len=True)
                cs.write(ep, ty, 0, str(v), [c], buflen={"sym": "fsd", "d": -1})
    # formats that add bytes to a numeral (a required '+'): the documented size must still be enough
    if "rf" in cfgs:
        for fname in ("syn_required_mantissa_sign", "syn_required_exponent_sign", "syn_required_exponent_notation"):
            fid_ = fmt_id(fname)
            for ty in gens.INT_TYPES:
                lo, hi = gens.int_range(ty)
                ep = cs.new_ep()
                for v in (hi, lo, 0, hi // 10 + 1):
                    cs.write(ep, ty, fid_, str(v), ["rf"], wo=True, buflen={"sym": "fsd", "d": 0}, tag="flagged-format-bound", want_len=True)
                    cs.write(ep, ty, fid_, str(v), ["rf"], wo=True, buflen={"sym": "fsd", "d": 8}, tag="flagged-format-bound")
            for F in (F64, F32):
                for (bits, tag) in extreme_floats(F):
                    ep = cs.new_ep()
                    cs.write(ep, F["name"], fid_, bits, ["rf"], wo=True, opts=wf(), buflen={"sym": "bsc", "d": 0}, tag="flagged-format-bound", want_len=True)
    for F in (F64, F32):
        for (bits, tag) in extreme_floats(F):
            ep = cs.new_ep()
            for c in cfgs:
                cs.write(ep, F["name"], 0, bits, [c], buflen={"sym": "fsd", "d": 0}, tag="default-bound", want_len=True)
                cs.write(ep, F["name"], 0, bits, [c], buflen={"sym": "fsd", "d": -1})

    def phase2(events, cs2):
        # after seeing the output length: buffers of exactly that length, one less, and empty, on guard pages
        n = 0
        for e in events:
            if e.get("want_len") and e["res"].get("k") == "ok":
                n += 1
                if n % 3:
                    continue
                ln = len(e["res"]["out"])
                for bl in (ln, ln - 1, 0):
                    if bl >= 0:
                        cs2.write(e["ep"], e["ty"], e["fmt"], e["val"], [e["_cfgname"]], wo=e["wo"], opts=e["opts"], buflen=bl,
                                  place="end", tag="short-buffer")
    # design level: the longest output of the documented layout fits the documented bound for a grid of options over every
    # exponent of the type (MC_Bounds), the candidate exponents used on traces are enough (MC_Bounds_exh), and the length
    # arithmetic is the length of the bytes the reference writer lays out (MC_FloatWrite, invariant LenAgrees)
    models = [("MC_Bounds.tla", "MC_Bounds_quick.cfg" if quick else "MC_Bounds.cfg", 8, 3600),
              ("MC_Bounds.tla", "MC_Bounds_exh.cfg", 8, 3600),
              ("AP_Bounds.tla", "apalache:Sufficient", 1, 1200),      # the same statement for ALL integer option values
              ("MC_FloatWrite.tla", "MC_FloatWrite_quick.cfg" if quick else "MC_FloatWrite.cfg", 8, 1800)]
    # also in a debug-assertions build (default and rf): an over-strict debug assertion is a panic with the documented buffer
    return cs, models, {"input_families": cs.tags, "configurations": cfgs, "phase2": phase2, "profiles": ["release", "dbg"]}


# ================================================================================================
# C14

def plan_C14(tier, rng):
    cs = Cases()
    quick = tier == "quick"
    cfgs = ["default", "compact", "rf"] if quick else ["default", "compact", "rf", "crf"]
    i = 0

    def digit_floats(F):
        out = []
        # short digit strings incl. all-nines and ...5 / ...50..01 ties at every length
        import itertools
        pats = []
        for n in range(1, 18 if F is F64 else 9):
            pats.append("9" * n)
            pats.append("1" + "0" * (n - 1) if n > 1 else "1")
            pats.append("".join(rng.choice("0123456789") for _ in range(n)).lstrip("0") or "5")
            pats.append(("".join(rng.choice("123456789") for _ in range(max(0, n - 1))) + "5"))
            pats.append(("".join(rng.choice("123456789") for _ in range(max(0, n - 2))) + "45"))
            pats.append(("".join(rng.choice("123456789") for _ in range(max(0, n - 2))) + "95"))
        exps = [-320, -310, -20, -7, -6, -5, -4, -1, 0, 1, 5, 8, 9, 10, 11, 20, 300] if F is F64 else [-44, -38, -7, -6, -5, -4, -1, 0, 1, 8, 9, 10, 11, 30]
        for pt in pats:
            for e in samp(rng, exps, 3 if quick else len(exps)):
                try:
                    x = float("%s.%se%d" % (pt[0], pt[1:] or "0", e))
                    out.append((gens.pyfloat_bits(F, x), "digits"))
                except OverflowError:
                    pass
        out += writer_floats(F, rng, 12 if quick else 300, 20 if quick else 600)
        return out

    def optgrid():
        g = []
        for mx in ([1, 2, 3, 5, 8, 16, 17, 20, 64] if quick else list(range(1, 22)) + [32, 64, 200]):
            g.append(dict(max=mx))
            g.append(dict(max=mx, round="truncate"))
        for mn in ([1, 2, 5, 17, 18, 25, 64] if quick else [1, 2, 3, 5, 9, 16, 17, 18, 19, 25, 64, 300]):
            g.append(dict(min=mn))
            g.append(dict(min=mn, trim=True))
        g += [dict(max=5, min=3), dict(max=4, min=4), dict(max=3, min=3, round="truncate"), dict(max=2, min=1, trim=True)]
        return g

    brk = [dict(), dict(pos=3, neg=-3), dict(pos=1, neg=-1), dict(pos=20, neg=-20), dict(pos=400, neg=-400), dict(pos=15, neg=-2)]
    grid = optgrid()
    for F in (F64, F32):
        for (bits, tag) in digit_floats(F):
            i += 1
            ep = cs.new_ep()
            c = [cfgs[i % len(cfgs)]]
            b = brk[i % len(brk)]
            base = wf(**b)
            cs.write(ep, F["name"], 0, bits, c, wo=True, opts=base, tag=tag)                       # default digits twin
            for g in samp(rng, grid, 3 if quick else 8):
                o = wf(**dict(b, **g))
                cs.write(ep, F["name"], 0, bits, c, wo=True, opts=o)
                if o.get("trim"):
                    cs.write(ep, F["name"], 0, bits, c, wo=True, opts=dict(o, trim=False))
            cs.write(ep, F["name"], 0, bits, c, wo=True, opts=wf(**dict(b, trim=True)))
            if i % 5 == 0:
                cs.write(ep, F["name"], 0, bits, c, wo=True, opts=wf(**dict(b, exp=69, point=44)))
    # the full product of max / min / trim / round mode / breaks on values whose rounding carries into a new leading digit,
    # rounds down onto trailing zeros, ties, or is integral (S-C14-b: carry + trim + min padding together)
    combo_vals = [0.996, 0.9996, 9.996, 99.96, 0.0996, 9.5, 0.95, 1.25, 1.35, 0.999999, 12345.678, 7.04, 704341.925, 9.96e20, 9.996e-7,
                  1.0, 100.0, 0.5, 2.5e-5, 999.5]
    for F in (F64, F32):
        for x in combo_vals:
            bits = gens.pyfloat_bits(F, x)
            for b in (dict(), dict(pos=1, neg=-1)):
                for trim in (False, True):
                    i += 1
                    ep = cs.new_ep()
                    c = [cfgs[i % len(cfgs)]]
                    cs.write(ep, F["name"], 0, bits, c, wo=True, opts=wf(**b), tag="option-product")          # default digits twin
                    cs.write(ep, F["name"], 0, bits, c, wo=True, opts=wf(**dict(b, trim=trim)))
                    for mx in (0, 1, 2, 3):
                        for mn in (0, 1, 2, 3, 5):
                            if mx and mn > mx:
                                continue
                            for rd in ("round", "truncate"):
                                if mx == 0 and (rd == "truncate" or mn == 0):
                                    continue
                                o = wf(**dict(b, max=mx, min=mn, trim=trim, round=rd))
                                cs.write(ep, F["name"], 0, bits, c, wo=True, opts=o)
                                if trim:
                                    cs.write(ep, F["name"], 0, bits, c, wo=True, opts=dict(o, trim=False))
    # the notation flags of the format interact with the options: trim under no_exponent_without_fraction, forbidden / required
    # exponent notation against the breaks, required exponent sign
    for fname in ("syn_no_exponent_without_fraction", "syn_no_exponent_notation", "syn_required_exponent_notation",
                  "syn_required_exponent_sign", "syn_required_mantissa_sign"):
        fid_ = fmt_id(fname)
        for x in (1.0, 1e-7, 1e10, 1.5e-7, 2.5e10, 123.0, 0.5, 1e21, 9.96e-7, 7.04e12):
            for F in (F64, F32):
                i += 1
                ep = cs.new_ep()
                bits = gens.pyfloat_bits(F, x)
                cs.write(ep, F["name"], fid_, bits, ["rf"], wo=True, opts=wf(), tag="notation-flag-format")
                for g in (dict(trim=True), dict(max=2), dict(max=2, trim=True), dict(min=4), dict(min=4, trim=True), dict(pos=2, neg=-2, trim=True)):
                    cs.write(ep, F["name"], fid_, bits, ["rf"], wo=True, opts=wf(**g))
    # other radices: counts, padding, notation flags, trim, punctuation
    for r in ([2, 16, 3, 36, 28, 7] if quick else [2, 4, 8, 16, 32, 3, 7, 12, 21, 28, 36]):
        rc = radix_cfgs(r, cfgs)
        if not rc:
            continue
        ec = exp_char(r)
        for F in (F64, F32):
            vals = writer_floats(F, rng, 8 if quick else 150, 8 if quick else 150)
            # values whose digits contain zeros: d + j / r^k for small d, j
            for _ in range(12 if quick else 200):
                k = rng.choice([2, 3, 4, 5])
                vals.append((gens.pyfloat_bits(F, rng.randrange(1, r) + rng.randrange(1, r) / float(r ** k)), "digits-with-zeros"))
            for (bits, tag) in vals:
                i += 1
                ep = cs.new_ep()
                c = [rc[i % len(rc)]]
                cs.write(ep, F["name"], radix_fmt(r), bits, c, wo=True, opts=wf(exp=ec), tag="radix")
                for g in samp(rng, grid, 2):
                    cs.write(ep, F["name"], radix_fmt(r), bits, c, wo=True, opts=wf(**dict(g, exp=ec)))
                cs.write(ep, F["name"], radix_fmt(r), bits, c, wo=True, opts=wf(exp=ec, trim=True))
                # max = min: exactly that many digits, whatever rounding leaves (zeros trimmed after rounding must be padded back)
                mm = rng.choice([2, 3, 4, 5, 6])
                cs.write(ep, F["name"], radix_fmt(r), bits, c, wo=True, opts=wf(exp=ec, max=mm, min=mm))
                cs.write(ep, F["name"], radix_fmt(r), bits, c, wo=True, opts=wf(exp=ec, max=mm, min=mm, pos=60, neg=-60))
    # exact ties behind a letter digit in even generic radices: 1 + (d + 1/2) / r is a dyadic rational when the odd part of r
    # divides 2d + 1, so its digits are exactly "1.<d><r/2>" and max_significant_digits = 2 is a tie on the digit d
    # (fix 'parity of the digit, not of its ASCII code': radix 12 "1.A6" -> "1.A", not "1.B")
    for r in (6, 12, 14, 18, 20, 22, 24, 26, 28, 30, 34, 36):
        rc = radix_cfgs(r, cfgs)
        if not rc:
            continue
        m_odd = r
        while m_odd % 2 == 0:
            m_odd //= 2
        ec = exp_char(r)
        for d in range(1, r):
            if (2 * d + 1) % m_odd:
                continue
            for (ip, mx) in ((1, 2), (r, 3), (r * r + 1, 4)):
                x = ip + (d + 0.5) / r
                for F in (F64, F32):
                    i += 1
                    ep = cs.new_ep()
                    bits = gens.pyfloat_bits(F, x)
                    c = [rc[i % len(rc)]]
                    cs.write(ep, F["name"], radix_fmt(r), bits, c, wo=True, opts=wf(exp=ec), tag="letter-digit-tie")
                    cs.write(ep, F["name"], radix_fmt(r), bits, c, wo=True, opts=wf(exp=ec, max=mx))
                    cs.write(ep, F["name"], radix_fmt(r), bits, c, wo=True, opts=wf(exp=ec, max=mx, pos=1, neg=-1))
    models = [("MC_FloatWrite.tla", "MC_FloatWrite_quick.cfg" if quick else "MC_FloatWrite.cfg", 8, 1800)]
    return cs, models, {"input_families": cs.tags, "configurations": cfgs}


# ================================================================================================
# C12 / C13: the grammar, driven by the per-transition witnesses of the explored automaton

import witness as _witness


def fmt_tags():
    return {f["id"]: f for f in vlib.load_formats()}


def opts_for_fmt(f):
    """parse options for a catalogue format: exponent character that is not a digit of the radix"""
    r = 10
    for (n, a) in f["calls"]:
        if n in ("from_radix", "mantissa_radix", "radix"):
            r = a
    return pf(exp=exp_char(r))


def grammar_plan(tier, rng, want_tag, prop):
    cs = Cases()
    quick = tier == "quick"
    W, model = _witness.scan_witnesses()
    F = fmt_tags()
    sel = [w for w in W if w["f"] == 0 or want_tag in F[w["f"]]["tags"]]
    if want_tag == "syntax":
        sel = [w for w in sel if "sep" not in F[w["f"]]["tags"]]
    if quick:
        short = [w for w in sel if len(w["s"]) <= 3]
        longer = [w for w in sel if len(w["s"]) > 3]
        sel = short + samp(rng, longer, min(len(longer), 45000))
    cfgs_all = ["rf"] if quick else ["rf", "crf"]
    i = 0
    byfmt = {}
    for w in sel:
        byfmt.setdefault((w["f"], w["k"]), []).append(w["s"])
    for (fid, kind), strs in sorted(byfmt.items()):
        f = F[fid]
        o = opts_for_fmt(f)
        ep = cs.new_ep()
        for sbytes in strs:
            i += 1
            if i % 50 == 0:
                ep = cs.new_ep()
            c = [cfgs_all[i % len(cfgs_all)]]
            if kind == "float":
                ty = "f32" if i % 4 == 0 else "f64"
                cs.parse(ep, ty, fid, sbytes, c, wo=True, opts=o, tag=want_tag + "-float")
                if i % 5 == 0:
                    cs.parse(ep, ty, fid, sbytes, c, wo=True, opts=o, partial=True)
            else:
                ty = "u64" if i % 3 == 0 else "i32"
                cs.parse(ep, ty, fid, sbytes, c, wo=True, opts=dict(PI_DEFAULT), tag=want_tag + "-int")
                if i % 5 == 0:
                    cs.parse(ep, ty, fid, sbytes, c, wo=True, opts=dict(PI_DEFAULT), partial=True)
            if want_tag == "sep" and f["id"] != 0 and not any(b == 95 or b == 39 for b in sbytes) and i % 2 == 0:
                # the same separator-free input under the separator-free counterpart (STANDARD)
                if not any(n in ("from_radix", "required_digits", "no_special") for (n, a) in f["calls"]):
                    if kind == "float":
                        cs.parse(ep, ty, 0, sbytes, c, wo=True, opts=o, tag="sep-free-counterpart")
                    else:
                        cs.parse(ep, ty, 0, sbytes, c, wo=True, opts=dict(PI_DEFAULT))
    return cs, model, F


def plan_C12(tier, rng):
    cs, model, F = grammar_plan(tier, rng, "syntax", "C12")
    # the documented examples themselves
    docs = [json.loads(l) for l in open(os.path.join(vlib.HARNESS, "docs.ndjson"))]
    byc = {json.dumps(f["calls"]): f["id"] for f in F.values()}
    n = 0
    ep = cs.new_ep()
    for d in docs:
        key = json.dumps(d["calls"])
        if key in byc and d["optradix"] == 10:
            n += 1
            isf = d["ty"] in ("f32", "f64")
            cs.parse(ep, d["ty"] if isf else "i32", byc[key], d["in"], ["rf"], wo=True, opts=pf() if isf else dict(PI_DEFAULT), tag="documented-example")
    # STANDARD = Rust's FromStr grammar: all strings up to length 4 (5 in thorough) over the number alphabet, with std as referee
    import itertools
    alpha = [48, 49, 43, 45, 46, 101, 69, 110, 105, 32]
    ep = cs.new_ep()
    k = 0
    for L in range(0, 5 if tier == "quick" else 6):
        for tup in itertools.product(alpha, repeat=L):
            k += 1
            if tier == "quick" and L == 4 and k % 3:
                continue
            if k % 60 == 0:
                ep = cs.new_ep()
            cs.parse(ep, "f64", 0, list(tup), ["default" if k % 2 else "rf"], std=True, tag="standard-all-strings")
            if k % 4 == 0:
                cs.parse(ep, "i32", 0, list(tup), ["default" if k % 2 else "rf"], std=True)
    return cs, [model, ("MC_Docs.tla", "MC_Docs.cfg", 1, 300)], {"input_families": cs.tags, "configurations": ["rf", "default"],
                                                                  "documented_examples_replayed": n}


def plan_C13(tier, rng):
    cs, model, F = grammar_plan(tier, rng, "sep", "C13")
    quick = tier == "quick"
    # long components with separators: multi-digit (>= 8) and big-integer (>= 20 digit) paths
    sepf = [f for f in F.values() if "sep" in f["tags"]]
    i = 0
    for f in sepf:
        sepc = 39 if f["name"] == "sep_apostrophe" else 95
        hexa = "hex" in f["tags"]
        o = opts_for_fmt(f)
        digs = "0123456789abcdefABCDEF" if hexa else "0123456789"
        for _ in range(6 if quick else 40):
            i += 1
            ep = cs.new_ep()
            ni, nf_, ne = rng.choice([(9, 0, 0), (12, 9, 0), (1, 12, 2), (25, 3, 1), (3, 30, 3), (8, 8, 2), (1, 9, 0)])
            ip = "".join(rng.choice(digs) for _ in range(ni))
            fp = "".join(rng.choice(digs) for _ in range(nf_))
            xp = "".join(rng.choice(digs if hexa else "0123456789") for _ in range(ne))
            base = ip + ("." + fp if nf_ else "") + ((chr(o["exp"]) + rng.choice(["", "+", "-"]) + xp) if ne else "")
            variants = [base]
            for _ in range(4):
                b = list(base)
                for _ in range(rng.choice([1, 1, 2, 3])):
                    pos = rng.randrange(0, len(b) + 1)
                    b.insert(pos, chr(sepc) * rng.choice([1, 1, 2]))
                variants.append("".join(b))
            for v in variants:
                for ty in (("f64", "f32") if i % 2 else ("f64",)):
                    cs.parse(ep, ty, f["id"], v, ["rf"], wo=True, opts=o, tag="long-separated")
                    if not hexa and sepc == 95 and "_" not in v and not any(n in ("required_digits", "no_special") for (n, a) in f["calls"]):
                        cs.parse(ep, ty, 0, v, ["rf"], wo=True, opts=o)
                if ne == 0 and nf_ == 0:
                    cs.parse(ep, "u64" if ni > 9 else "i32", f["id"], v, ["rf"], wo=True, opts=dict(PI_DEFAULT), tag="long-separated-int")
            cs.parse(ep, "f64", f["id"], variants[-1], ["rf"], wo=True, opts=o, partial=True)
        # separators only where this format enables them (so the input is accepted), in long components:
        # more than 19 significant digits reach the truncated-mantissa and big-integer paths
        flags = {n for (n, a) in f["calls"] if a is True}
        def enabled(comp, kind):
            return ("%s_%s_digit_separator" % (comp, kind) in flags or "%s_digit_separator" % kind in flags
                    or "digit_separator_flags" in flags or "%s_digit_separator_flags" % comp in flags)
        for _ in range(4 if quick else 30):
            i += 1
            ep = cs.new_ep()
            parts = {"integer": "".join(rng.choice("123456789") + "".join(rng.choice(digs) for _ in range(rng.choice([0, 2, 8, 21])))),
                     "fraction": "".join(rng.choice(digs) for _ in range(rng.choice([1, 9, 22, 40]))),
                     "exponent": "".join(rng.choice("123456789" if not hexa else digs) for _ in range(rng.choice([1, 2])))}
            plain = parts["integer"] + "." + parts["fraction"] + chr(o["exp"]) + parts["exponent"]
            sepd = {}
            for comp, txt in parts.items():
                b = list(txt)
                if enabled(comp, "internal") and len(b) > 1:
                    for _ in range(rng.choice([1, 2, 4])):
                        pos = rng.randrange(1, len(b))
                        if b[pos - 1] != chr(sepc) and b[pos] != chr(sepc) or enabled(comp, "consecutive"):
                            b.insert(pos, chr(sepc))
                if enabled(comp, "leading") and rng.random() < 0.4:
                    b.insert(0, chr(sepc))
                if enabled(comp, "trailing") and rng.random() < 0.4:
                    b.append(chr(sepc))
                sepd[comp] = "".join(b)
            v = sepd["integer"] + "." + sepd["fraction"] + chr(o["exp"]) + sepd["exponent"]
            for ty in ("f64", "f32"):
                cs.parse(ep, ty, f["id"], v, ["rf"], wo=True, opts=o, tag="legal-separators-long")
                cs.parse(ep, ty, f["id"], plain, ["rf"], wo=True, opts=o)
            cs.parse(ep, "f64", f["id"], v, ["rf"], wo=True, opts=o, partial=True)
            vi = sepd["integer"]
            cs.parse(ep, "u64" if len(parts["integer"]) > 9 else "i32", f["id"], vi, ["rf"], wo=True, opts=dict(PI_DEFAULT), tag="legal-separators-int")
        # grouping style (a separator every 3 digits) with 18..23 significant digits: the separators push
        # digits across the 19-digit mantissa limit
        def group3(txt, from_left):
            if len(txt) < 4:
                return txt
            if from_left:
                return chr(sepc).join(txt[k:k + 3] for k in range(0, len(txt), 3))
            r_ = txt[::-1]
            return chr(sepc).join(r_[k:k + 3] for k in range(0, len(r_), 3))[::-1]
        for (ni, nf_) in ((1, 18), (1, 19), (1, 20), (1, 22), (2, 19), (7, 14), (12, 8), (20, 2), (21, 0), (19, 3)):
            i += 1
            ep = cs.new_ep()
            ip = rng.choice("123456789") + "".join(rng.choice("0123456789") for _ in range(ni - 1))
            fp = "".join(rng.choice("0123456789") for _ in range(nf_))
            gi = group3(ip, False) if enabled("integer", "internal") else ip
            gf = group3(fp, True) if enabled("fraction", "internal") else fp
            if hexa:
                continue
            v = gi + ("." + gf if nf_ else "")
            plain = ip + ("." + fp if nf_ else "")
            for ty in ("f64", "f32"):
                cs.parse(ep, ty, f["id"], v, ["rf"], wo=True, opts=o, tag="grouped-by-3")
                cs.parse(ep, ty, f["id"], plain, ["rf"], wo=True, opts=o)
            cs.parse(ep, "f64", f["id"], v + "e-7", ["rf"], wo=True, opts=o)
        if hexa:
            continue
        # leading zeros with separators among them, then more than 19 significant digits: the zeros (and the separators
        # skipped with them) must not count against the 64-bit mantissa (S-C13-c)
        sp_ = chr(sepc)
        d20 = rng.choice("123456789") + "".join(rng.choice("0123456789") for _ in range(21))
        zforms = []
        if enabled("integer", "internal"):
            zforms += ["0" + sp_ + "0." + d20, "0" + sp_ + "0" + sp_ + "0" + d20, "0" + sp_ + "00" + sp_ + d20[:10] + "." + d20[10:]]
        if enabled("fraction", "internal"):
            zforms += ["0.0" + sp_ + "0" + sp_ + "0" + sp_ + d20, "0.00" + sp_ + "0" + d20, "1.0" + sp_ + "0" + sp_ + d20]
        for v in zforms:
            i += 1
            ep = cs.new_ep()
            plain = v.replace(sp_, "")
            for ty in ("f64", "f32"):
                cs.parse(ep, ty, f["id"], v, ["rf"], wo=True, opts=o, tag="separated-leading-zeros-long")
                cs.parse(ep, ty, f["id"], plain, ["rf"], wo=True, opts=o)
        # exact halfway expansions (slow big-integer path) with separators inside the long fraction / integer
        hw = [("1.00000000000000011102230246251565404236316680908203125", 0), ("9007199254740993", 0),
              ("1.00000000000000033306690738754696212708950042724609375", 0),
              ("0.500000000000000055511151231257827021181583404541015625", 0)]
        for (hs, _) in hw:
            for delta in (0, 1, -1):
                digs_ = hs.replace(".", "")
                pt = hs.index(".") if "." in hs else len(hs)
                dnew = str(int(digs_) + delta).rjust(len(digs_), "0")
                ip_, fp_ = dnew[:pt], dnew[pt:]
                variants_ = []
                if fp_ and enabled("fraction", "internal"):
                    variants_ += [ip_ + "." + fp_[:-2] + sp_ + fp_[-2:], ip_ + "." + fp_[:20] + sp_ + fp_[20:], ip_ + "." + group3(fp_, True)]
                if len(ip_) > 3 and enabled("integer", "internal"):
                    variants_ += [group3(ip_, False) + ("." + fp_ if fp_ else ""), ip_[:-1] + sp_ + ip_[-1:] + ("." + fp_ if fp_ else "")]
                for v in variants_:
                    i += 1
                    ep = cs.new_ep()
                    cs.parse(ep, "f64", f["id"], v, ["rf"], wo=True, opts=o, tag="separated-halfway")
                    cs.parse(ep, "f64", f["id"], v.replace(sp_, ""), ["rf"], wo=True, opts=o)
    return cs, [model], {"input_families": cs.tags, "configurations": ["rf"]}


# ================================================================================================
# C15

def plan_C15(tier, rng):
    cs = Cases()
    quick = tier == "quick"
    cfgs_std = ["default", "rf"]
    L50 = "n" + "a" * 49
    I50 = "i" + "z" * 49
    optsets = [("NaN", "inf", "infinity"), ("n", "i", "in"), ("nan", "inf", "inf"), ("N", "I", "Infinity"), ("NAN", "INF", "INFINITY"),
               ("nans", "i", "infinity"), (L50, "inf", I50), (None, "inf", "infinity"), ("NaN", None, None), (None, None, None),
               ("NaN", "in", "inf"), ("nan", "Inf", "Inft")]
    fmts = [(0, cfgs_std), (fmt_id("syn_no_special"), ["rf"]), (fmt_id("syn_case_sensitive_special"), ["rf"]),
            (fmt_id("sep_special"), ["rf"]), (fmt_id("sep_all_flags"), ["rf"]), (radix_fmt(19), ["rf"]), (radix_fmt(24), ["rf"]),
            (radix_fmt(36), ["rf"]), (radix_fmt(16), ["rf"]),
            (fmt_id("syn_required_mantissa_sign"), ["rf"]), (fmt_id("syn_no_positive_mantissa_sign"), ["rf"])]
    i = 0

    def variants(sp):
        out = set()
        for w in sp:
            if w is None:
                continue
            b = w.encode()
            out.add(b)
            for k in range(1, len(b)):
                out.add(b[:k])
            for ext in (b"s", b"y", b"0", b" ", b"_", b"\x00", b"e5", b"."):
                out.add(b + ext)
            for k in range(min(len(b), 8)):
                out.add(b[:k] + bytes([b[k] ^ 0x20]) + b[k + 1:])
                out.add(b[:k] + b"_" + b[k:])
            out.add(b.upper())
            out.add(b.lower())
            out.add(b.swapcase())
        out |= {b"@", b"`", b"[", b"{", b"nAN", b"iNF", b"INFINITY", b"infinit", b"infinityy", b"NaN(", b"1nan", b"nan1", b"i", b"n", b""}
        res = []
        for b in sorted(out):
            res.append(b)
            res.append(b"-" + b)
            if len(b) < 6:
                res.append(b"+" + b)
        return res

    for (fid, cfgs) in fmts:
        F = fmt_tags()[fid]
        r = 10
        for (n, a) in F["calls"]:
            if n in ("from_radix",):
                r = a
        for (nan, inf, infinity) in (optsets if not quick else optsets[:9]):
            o = pf(exp=exp_char(r), nan=B(nan) if nan else [], inf=B(inf) if inf else [], infinity=B(infinity) if infinity else [])
            vs = variants((nan, inf, infinity))
            if quick:
                vs = samp(rng, vs, min(len(vs), 70))
            ep = cs.new_ep()
            for b in vs:
                i += 1
                if i % 40 == 0:
                    ep = cs.new_ep()
                c = [cfgs[i % len(cfgs)]]
                ty = "f32" if i % 3 == 0 else "f64"
                cs.parse(ep, ty, fid, list(b), c, wo=True, opts=o, tag="special-parse")
                if i % 2 == 0:
                    cs.parse(ep, ty, fid, list(b), c, wo=True, opts=o, partial=True, want_prefix=True)
            # writing specials and signed zeros
            for F_ in (F64, F32):
                nb = (1 << F_["ebits"]) - 1
                sign = 1 << (F_["bits"] - 1)
                for bits in (nb << F_["mbits"], sign | (nb << F_["mbits"]), (nb << F_["mbits"]) | 1, sign | (nb << F_["mbits"]) | 5, 0, sign):
                    if "no_special" in F["name"]:
                        continue
                    wo_ = wf(exp=exp_char(r), nan=B(nan) if nan else [], inf=B(inf) if inf else [])
                    cs.write(ep, F_["name"], fid, "%x" % bits, [cfgs[0]], wo=True, opts=wo_, tag="special-write", want_back=True)
    # numeric inputs far outside the range: infinity / zero with the sign of the input, never NaN, in every algorithm family
    # (S-C15-c: overflow by exponent left mantissa bits set -> NaN, in the paths that round through shared::round)
    import math
    huge = ["2e308", "1.8e308", "1e309", "-1e309", "4e38", "-3.5e38", "1e400", "123456789012345678901234567890e300", "-1e999999999",
            "1e-400", "-1e-400", "-0.0", "-0e999", "179769313486231580793728971405303415079934132710037826936173778980444968292764750946649017977587207096330286416692887910946555547851940402630657488671505820681908902000708383676273854845817711531764475730270069855571366959622842914819860834936475292719074168444365510704342711559699508093042880177904174497792"]
    for (k, s_) in enumerate(huge):
        ep = cs.new_ep()
        for c in ("default", "compact", "rf", "crf"):
            for ty in ("f64", "f32"):
                cs.parse(ep, ty, 0, B(s_), [c], partial=(k % 2 == 1), tag="numeric-out-of-range")
    for r in (2, 3, 7, 12, 16, 32, 36):
        ec = exp_char(r)
        for F_ in (F64, F32):
            hi = int((F_["emax"] + F_["p"]) * math.log(2) / math.log(r))
            lo = int(F_["emin"] * math.log(2) / math.log(r))
            ep = cs.new_ep()
            for q in (hi + 1, hi + 2, hi + 9, hi * 3, lo - 3, lo - 40):
                for m in ("1", "-" + gens.DIG[r - 1] * 3, gens.DIG[r - 1] + "." + gens.DIG[1] * 25):
                    cs.parse(ep, F_["name"], radix_fmt(r), B("%s%s%s" % (m, chr(ec), gens.exp_str(q, r))), radix_cfgs(r, ["rf", "crf"])[:1] or ["rf"],
                             wo=True, opts=pf(exp=ec), tag="numeric-out-of-range")
    # default API
    ep = cs.new_ep()
    for b in variants(("NaN", "inf", "infinity")):
        i += 1
        if i % 40 == 0:
            ep = cs.new_ep()
        cs.parse(ep, "f64", 0, list(b), [cfgs_std[i % 2]], std=True, tag="special-default-api")
        cs.parse(ep, "f32", 0, list(b), [cfgs_std[i % 2]], partial=True)
    for s in ("0", "-0", "+0", "-0.0", "0e5", "-0e-5", "-0e999999", "-1e-400", "1e-400", "-1e400", "1e400", "-.0", "+.0e1"):
        ep = cs.new_ep()
        for ty in ("f64", "f32"):
            cs.parse(ep, ty, 0, s, cfgs_std, std=True, tag="signed-zero")

    def phase2(events, cs2):
        add_back(events, cs2)
        for e in events:
            if e.get("want_prefix") and e["op"] == "parse" and e["res"].get("k") == "ok" and 0 < e["res"]["n"] < e["len"]:
                cs2.parse(e["ep"], e["ty"], e["fmt"], e["in"][:e["res"]["n"]], [e["_cfgname"]], wo=e["wo"], opts=e["opts"], tag="prefix")
    return cs, [], {"input_families": cs.tags, "configurations": ["default", "rf"], "phase2": phase2}


# ================================================================================================
# C18

FLAG_SETTERS = ["required_integer_digits", "required_fraction_digits", "required_exponent_digits", "required_mantissa_digits",
                "no_positive_mantissa_sign", "required_mantissa_sign", "no_exponent_notation", "no_positive_exponent_sign",
                "required_exponent_sign", "no_exponent_without_fraction", "no_special", "case_sensitive_special",
                "no_integer_leading_zeros", "no_float_leading_zeros", "required_exponent_notation", "case_sensitive_exponent",
                "case_sensitive_base_prefix", "case_sensitive_base_suffix"]
SEP_SETTERS = ["%s_%s_digit_separator" % (c, k) for k in ("internal", "leading", "trailing", "consecutive")
               for c in ("integer", "fraction", "exponent")] + ["special_digit_separator"]
GROUP_SETTERS = ["required_digits", "internal_digit_separator", "leading_digit_separator", "trailing_digit_separator",
                 "consecutive_digit_separator", "digit_separator_flags", "integer_digit_separator_flags",
                 "fraction_digit_separator_flags", "exponent_digit_separator_flags"]
CHAR_SETTERS = ["digit_separator", "base_prefix", "base_suffix"]
RADIX_SETTERS = ["mantissa_radix", "exponent_base", "exponent_radix", "radix"]


def ostr(s):
    return {"some": s is not None, "s": B(s) if s is not None else []}


def plan_C18(tier, rng):
    cs = Cases()
    quick = tier == "quick"
    RF = ["rf"]
    i = 0
    ep = cs.new_ep()

    def builder(calls, cfgs=RF, tag=None):
        nonlocal i, ep
        i += 1
        ep = cs.new_ep()          # no relation between builder events: one per episode keeps the trace state small
        cs.add({"ep": ep, "op": "builder", "calls": [list(c) for c in calls], "api": "core", "wo": False}, cfgs, tag)

    # exhaustive per group: every subset of the 18 syntax flags (sampled in quick), of the 13 separator flags, every byte per char field
    n_syn = 1 << 18
    subsets = range(n_syn) if not quick else sorted(samp(rng, range(n_syn), 6000))
    for m in subsets:
        builder([(FLAG_SETTERS[k], True) for k in range(18) if (m >> k) & 1] + [("base_prefix", 120), ("base_suffix", 104)], tag="syntax-flag-subset")
    n_sep = 1 << 13
    subsets = range(n_sep) if not quick else sorted(samp(rng, range(n_sep), 2500))
    for m in subsets:
        builder([("digit_separator", 95)] + [(SEP_SETTERS[k], True) for k in range(13) if (m >> k) & 1], tag="separator-flag-subset")
    for name in CHAR_SETTERS:
        for b in range(256):
            builder([(name, b), ("internal_digit_separator", True)], tag="char-field")
            if b % 8 == 0:
                builder([("from_radix", 16), (name, b)], tag="char-field")
                builder([("mantissa_radix", 10), ("exponent_radix", 36), (name, b)], tag="char-field")
    for b1 in (0, 95, 120, 104, 43, 49):
        for b2 in (0, 95, 120, 104):
            for b3 in (0, 95, 120, 104):
                builder([("digit_separator", b1), ("base_prefix", b2), ("base_suffix", b3)], tag="char-distinctness")
    for name in RADIX_SETTERS:
        for r in list(range(0, 40)) + [64, 255]:
            builder([(name, r)], cfgs=["rf", "pow2"], tag="radix-field")
    # getter = last setter, call sequences incl. group setters and repeated / reverted settings
    allset = FLAG_SETTERS + SEP_SETTERS + GROUP_SETTERS
    for _ in range(1500 if quick else 20000):
        k = rng.choice([1, 2, 3, 4, 6])
        calls = []
        for _ in range(k):
            kind = rng.random()
            if kind < 0.7:
                calls.append((rng.choice(allset), rng.random() < 0.7))
            elif kind < 0.85:
                calls.append((rng.choice(CHAR_SETTERS), rng.choice([0, 95, 39, 120, 104, 44, 32, 57, 97, 200, 43])))
            else:
                calls.append((rng.choice(RADIX_SETTERS), rng.choice([2, 3, 8, 10, 16, 36, 1, 37, 0])))
        builder(calls, tag="setter-sequence")
    for ctor in ("new", "decimal", "binary", "octal", "hexadecimal"):
        builder([(ctor, 0)], cfgs=["rf", "pow2"], tag="constructor")
    for r in range(0, 40):
        builder([("from_radix", r)], cfgs=["rf", "pow2"], tag="constructor")
    builder([("new", 0)], cfgs=["default", "compact", "format"], tag="constructor")
    builder([("decimal", 0)], cfgs=["default", "format"], tag="constructor")
    for fl in FLAG_SETTERS[:16] + SEP_SETTERS[:4]:
        builder([(fl, True)], cfgs=["format"], tag="format-only-build")
        builder([("digit_separator", 95), (fl, True)], cfgs=["format"], tag="format-only-build")
    # the compiled catalogue: format_is_valid / format_error / NumberFormat getters
    ep = cs.new_ep()
    for f in vlib.load_formats():
        for c in ("rf", "pow2", "format", "default"):
            cs.add({"ep": cs.new_ep(), "op": "fmtinfo", "fmt": f["id"], "api": "core", "wo": False}, [c], "catalogue-format")
    # parsing with invalid formats / invalid punctuation never yields a value
    F = fmt_tags()
    ep = cs.new_ep()
    inputs = ["1", "1.5e3", "-0", "", "abc", "nan", "1_000", "0x1", "+1e+5", "1e"]
    for f in F.values():
        if f["name"].startswith("syn2_") or f["name"].startswith("syn3_") or f["name"] in ("sep_all_c",):
            for s_ in inputs:
                ep = cs.new_ep()
                for ty in ("f64", "i32"):
                    for partial in (False, True):
                        cs.parse(ep, ty, f["id"], s_, RF, wo=True, opts=pf() if ty == "f64" else dict(PI_DEFAULT), partial=partial, tag="parse-invalid-format")
    bad_punct = [(101, 101), (46, 46), (49, 46), (101, 49), (43, 46), (101, 45), (0, 46), (101, 0), (200, 46), (101, 255), (95, 46), (101, 95)]
    for (e_, p_) in bad_punct:
        for fid in (0, fmt_id("sep_all_i"), radix_fmt(16), fmt_id("syn_prefix_x")):
            for s_ in inputs[:6]:
                ep = cs.new_ep()
                for partial in (False, True):
                    cs.parse(ep, "f64", fid, s_, RF, wo=True, opts=pf(exp=e_, point=p_), partial=partial, tag="parse-invalid-punctuation")
    # punctuation that collides with one character of the format: exponent or decimal point equal to the base prefix, the
    # base suffix or the digit separator, each collision on its own (S-C18-b: suffix = exponent character was let through)
    for fname in ("syn_prefix_x", "syn_suffix_h", "syn_prefix_suffix", "syn_hex_prefix", "sep_all_i", "sep_apostrophe", "syn_suffix_h_cs"):
        f_ = F[fmt_id(fname)]
        chars = sorted({a_ for (n_, a_) in f_["calls"] if n_ in ("base_prefix", "base_suffix", "digit_separator")})
        for ch in chars:
            for (e_, p_) in ((ch, 46), (101 if fname != "syn_hex_prefix" else 112, ch), (ch, 44)):
                for s_ in ("1", "1.5", "12" + chr(ch) + "5", ""):
                    ep = cs.new_ep()
                    for partial in (False, True):
                        cs.parse(ep, "f64", f_["id"], s_, RF, wo=True, opts=pf(exp=e_, point=p_), partial=partial, tag="parse-punctuation-collides-with-format")
    # option builders
    ep = cs.new_ep()
    strs = [None, "NaN", "nan", "n", "N", "Nan1", "na n", "xan", "", "n" * 50, "n" * 51, "inf", "i", "Infinity", "infinity", "in", "i" * 50,
            "i" * 51, "1nf", "\xc4\xb0nf"]
    for nan in strs:
        for inf in strs[::2]:
            for infinity in strs[1::3]:
                i += 1
                if quick and i % 3:
                    continue
                o = {"lossy": i % 2 == 0, "exp": 101, "point": 46, "nan": ostr(nan), "inf": ostr(inf), "infinity": ostr(infinity)}
                cs.add({"ep": cs.new_ep(), "op": "options", "kind": "parse_float", "opts": o, "api": "core", "wo": True}, RF, "parse-float-options")
    # every byte value inside a special string (only ASCII letters are valid)
    for b in range(256):
        o = {"lossy": False, "exp": 101, "point": 46, "nan": {"some": True, "s": [78, b, 78]}, "inf": ostr("inf"), "infinity": {"some": True, "s": [105, 110, 102, b]}}
        cs.add({"ep": ep, "op": "options", "kind": "parse_float", "opts": o, "api": "core", "wo": True}, RF, "options-any-byte-special")
        o2 = {"max": 0, "min": 0, "pos": 9, "neg": -5, "round": "round", "trim": False, "exp": 101, "point": 46,
              "nan": {"some": True, "s": [78, 97, b]}, "inf": {"some": True, "s": [b, 110, 102]}}
        cs.add({"ep": ep, "op": "options", "kind": "write_float", "opts": o2, "api": "core", "wo": True}, RF, "options-any-byte-special")
    for (e_, p_) in bad_punct + [(101, 46), (94, 44), (9, 46), (127, 46), (1, 2)]:
        o = {"lossy": False, "exp": e_, "point": p_, "nan": ostr("NaN"), "inf": ostr("inf"), "infinity": ostr("infinity")}
        cs.add({"ep": ep, "op": "options", "kind": "parse_float", "opts": o, "api": "core", "wo": True}, RF, "parse-float-options")
        o2 = {"max": 0, "min": 0, "pos": 9, "neg": -5, "round": "round", "trim": False, "exp": e_, "point": p_, "nan": ostr("NaN"), "inf": ostr("inf")}
        cs.add({"ep": ep, "op": "options", "kind": "write_float", "opts": o2, "api": "core", "wo": True}, RF, "write-float-options")
    for (mx, mn, ps, ng) in [(0, 0, 9, -5), (5, 3, 9, -5), (3, 5, 9, -5), (1, 1, 1, -1), (0, 7, 300, -300), (7, 0, 0, 0), (2, 9, 9, -5),
                             (5, 5, -3, -5), (5, 5, 9, 4), (0, 0, -1, 1)]:
        for nan in ("NaN", None, "x", "n" * 51):
            o2 = {"max": mx, "min": mn, "pos": ps, "neg": ng, "round": "truncate" if mx % 2 else "round", "trim": mn % 2 == 1,
                  "exp": 101, "point": 46, "nan": ostr(nan), "inf": ostr("inf")}
            cs.add({"ep": ep, "op": "options", "kind": "write_float", "opts": o2, "api": "core", "wo": True}, RF, "write-float-options")
    models = [("MC_Builder.tla", "MC_Builder.cfg" if quick else "MC_Builder_thorough.cfg", 8, 1800)]
    return cs, models, {"input_families": cs.tags, "configurations": ["rf", "pow2", "format", "default"]}


PLANS = {"C01": plan_C01, "C02": plan_C02, "C03": plan_C03, "C04": plan_C04, "C05": plan_C05,
         "C06": plan_C06, "C07": plan_C07, "C08": plan_C08, "C09": plan_C09,
         "C10": plan_C10, "C11": plan_C11, "C12": plan_C12, "C13": plan_C13, "C14": plan_C14, "C15": plan_C15, "C16": plan_C16, "C17": plan_C17, "C18": plan_C18, "C19": plan_C19}


ASSUME = {
    "C01": ["TLC 1.8.0 and the CommunityModules Json/IOUtils overrides evaluate the specification faithfully",
            "the worker's ~30-line decomposition of f32/f64 bits into (sign, class, integer significand, binary exponent) is right",
            "coverage is by construction (halfway points, table rows, fast-path limits, extremes) plus seeded sampling, not universal"],
}


def run(prop, tier, seed, t0):
    if prop not in PLANS:
        log("no plan for " + prop)
        return 2
    rng = random.Random(seed * 1000003 + sum(map(ord, prop)))
    wdir = os.path.join(vlib.WORK, "%s-%s-%d" % (prop, tier, os.getpid()))
    os.makedirs(wdir, exist_ok=True)
    vlib.regen_catalogue()
    cs, models, extra = PLANS[prop](tier, rng)
    log("[plan] %s %s: %d cases in %d episodes" % (prop, tier, len(cs.cases), cs.ep))
    events = execute(cs, wdir)
    if "phase2" in extra:
        cs2 = Cases()
        cs2.nid = cs.nid
        extra.pop("phase2")(events, cs2)
        log("[plan] phase 2: %d cases" % len(cs2.cases))
        events += execute(cs2, wdir)
    if "profiles" in extra and "dbg" in extra["profiles"]:
        # the same cases again in a build with debug assertions and overflow checks (ids shifted)
        cs3 = Cases()
        off = max(e["id"] for e in events) + 1
        epoff = max(e["ep"] for e in events) + 1
        for c in cs.cases:
            if c["_cfg"] not in ("default", "rf"):      # debug-profile workers exist for these two configurations
                continue
            c3 = dict(c)
            c3["id"] += off
            c3["ep"] += epoff
            cs3.cases.append(c3)
        events += execute(cs3, wdir, profile="dbg")
    tiers = {}
    for e in events:
        e.pop("_cfgname", None)
        if "tier" in e and e.get("ty") in ("f32", "f64"):
            k = "%s:%s" % (e["op"], e["tier"])
            tiers[k] = tiers.get(k, 0) + 1
    extra["implementation_tiers_exercised"] = tiers
    if UNAVAILABLE[0]:
        extra["cases_dropped_format_or_type_not_compiled_in_that_build"] = UNAVAILABLE[0]
    mres = models_for(models, tier)
    t1 = time.time()
    result = vlib.judge(events, wdir)
    log("[judge] %d events, %d shards, %.1fs, %d mismatches" % (result["events"], result["shards"], time.time() - t1, len(result["mismatches"])))
    rc = vlib.finish(prop, tier, seed, t0, result, mres, sample_events(events), extra_cov=extra,
                     assumptions=ASSUME.get(prop, []))
    import shutil
    if rc == 0:
        shutil.rmtree(wdir, ignore_errors=True)
    return rc


def replay(path):
    d = json.load(open(path))
    prop = d["property"]
    cs = Cases()
    for c in d["cases"]:
        c = dict(c)
        cfg = c.pop("cfg", "default")
        base, _, prof = cfg.partition("-")
        c["_cfg"] = base
        cs.cases.append(c)
    wdir = os.path.join(vlib.WORK, "replay-%d" % os.getpid())
    os.makedirs(wdir, exist_ok=True)
    events = execute(cs, wdir)
    result = vlib.judge(events, wdir, nshards=1)
    t0 = time.time()
    n = 0
    for mm in result["mismatches"]:
        if mm["prop"] == prop:
            n += 1
            print("VIOLATION property=%s replay=%s  # %s" % (prop, path, mm["why"]))
    if n == 0:
        print("replay: no violation of %s reproduced" % prop)
    return 1 if n else 0

_COMMON = (" Every executed call is judged by TLC walking spec/Trace.tla over the recorded ndjson trace (one action per operation kind; "
           "a mismatch is recorded with its line and the walk goes on); Rust std referees the oracle on the default format (a dispute is exit 2). "
           "Not universal over inputs: constructed hard cases + seeded sampling; see evidence for the counts of this run.")
LEVEL = {
 "C01": "TLA+ oracle Ieee!CorrectlyRounded on exact BigNat arithmetic (validated against brute force on a toy format by MC_Ieee, against native integers by MC_BigNat) judges every recorded parse::<f32|f64> call: exact halfway expansions per binade and their +-1 perturbations and truncations at the 19/20/768/769/770-digit limits, Eisel-Lemire row straddlers, fast-path limits, overflow/underflow edges, fractions of the smallest denormal written with 2/20/45 digits, random; complete, partial and with-options API under default, compact, radix+format, compact+radix+format builds." + _COMMON,
 "C02": "TLA+ predicates RoundTrips / IsShortest (convexity shortcut) / IsClosest, proved equal to their definitions on a toy format by MC_Ieee, judge every recorded write::<f32|f64>: all 2046+254 shorter-interval floats, per-binade patterns, the endpoint family (decimals exactly on a closed interval endpoint, k>=17 exhaustively in quick), powers of ten, random bits; compact builds judged for round trip and <= 17/9 digits." + _COMMON,
 "C03": "TLA+ oracle IntWrite!IntWriteWhy (sign, canonical upper-case digits, no leading zero, FromDigits(out) = |v| in BigNat) on u8/i8 exhaustively for all 35 radices (u16/i16 too in thorough) and r^k-1, r^k, r^k+1, MIN, MAX, 64-bit split values for the wider types; decimal output also equal to Rust Display; returned slice starts at the buffer start. MC_IntWrite: the writer's design (digit count by 4/2/1 digits, fill from the right in 4/2/1-digit chunks, wide values split into zero-padded step-digit parts) on a toy word size, every value of the wide type for 12 radices in thorough: in bounds, filled exactly, canonical, exact; three negative controls." + _COMMON,
 "C04": "TLA+ reference IntParse!IntParseSpec (left-to-right Empty / InvalidDigit(i) / Overflow(i) / Underflow(i), exact BigNat accumulation) judges complete and partial parses of boundary numerals, long zero prefixes, invalid bytes at every position incl. SWAR-window neighbours, every byte value 0..255 at a digit position in every radix, all 12 types x 35 radices; MC_IntParse proves on toy widths that the 'unchecked prefix then checked' strategy equals the reference and that overflow_digits+1 breaks it." + _COMMON,
 "C05": "As C01 with FloatExact in any radix / mixed base (CmpScaled via the odd part of the radix): per radix near-halfway strings with 5-140 digits straddling the midpoint, exact halfway expansions for even radices, exponent sweeps over every power-table index, fractions of the smallest denormal (underflow boundary), every byte value in mantissa and exponent positions, mixed-base hex floats; builds radix and compact+radix+format." + _COMMON,
 "C06": "TLA+ Ieee!ExactlyEqual(FloatExact(scan of the output), M, e) on the written bytes (no parser of the implementation involved) for radix 2/4/8/16/32 and the mixed formats, every sampled binade, default / forced positional / forced scientific notation, then the implementation's parse-back must return the same bits (relation RoundTripAt)." + _COMMON,
 "C07": "Well-formedness by the TLA+ grammar automaton of the same format, |value(out) - v| < 2048 / 256 ulp by Ieee!WithinUlps on the exact value of the string, integers below 2^p exact; values around r^k and within 2 ulp of n + j/r^k for every generic radix; both notations; parse-back accepted." + _COMMON,
 "C08": "Relation RoundTripAt over recorded episodes {write, parse of the written bytes with options derived from the write options}: accepted in full, and the same bits where ExactBack says so (integers, zeros, infinities, decimal and power-of-two floats without truncation; NaN -> NaN); MC_FloatWrite shows at the design level that the documented layout is accepted by the grammar of the same format with the same digits." + _COMMON,
 "C09": "Contract WriteAbnormal against the bound the code itself reports (FORMATTED_SIZE[_DECIMAL], buffer_size_const): with buflen >= bound the call returns within the bound; shorter buffers return within the buffer or panic; canary bytes intact; a fault (guard page) is an event TLC rejects. Option grid x extreme values x {bound, bound-1, exact length, length-1, 0} x both guard placements, all writer back-ends, facade. For decimal float options the reported bound must also cover Bounds!LongestOutput, the longest output of the documented layout over every exponent and digit count of the type (clause BoundCoversLongest), whether or not such a float was written; MC_Bounds checks the documented formula against that maximum on an option grid (negative control: one byte less exponent room fails), MC_FloatWrite ties the length arithmetic to the laid-out bytes." + _COMMON,
 "C10": "Every parse event of the corpus (junk, random bytes, numbers, radix formats; 14 types; complete, partial, with options, facade) must be ok/err with indices <= length (panic / fault / timeout are recorded events TLC rejects), in release and in a debug-assertions + overflow-checks build, inputs abutting a guard page at either end; MC_Scan / MC_IntParse: the reference automaton is total and a dead state stays dead." + _COMMON,
 "C11": "Relation PartialAgreesAt over episodes {partial, complete, complete on the first n bytes (second phase after seeing n)}; MC_IntParse checks the relation on the reference; inputs end in separators, signs, exponent characters, points, suffix letters and prefixes of special strings; every one- and two-byte witness of every flagged format." + _COMMON,
 "C12": "The documented grammar as a finite automaton (Scan!Step) explored exhaustively by TLC for every syntax-flag format of the catalogue (MC_Scan: all control states, all input lengths) and validated against all 222 upstream doctest assertions (MC_Docs); one witness per transition is replayed on the real complete parsers (f32/f64/i32/u64) and judged three-valued (accept with value / reject / unspecified); STANDARD additionally on all strings <= 4 over the number alphabet with Rust FromStr as referee." + _COMMON,
 "C13": "Product of three automata in MC_Scan (format on s, format on s with separators deleted, separator-free counterpart on s) with invariants SepDeletion and NoSepSame over all inputs of all lengths for 45 separator formats; the per-transition witnesses plus long separated components (>= 8 and >= 20 digits) are replayed; relation SepFreeSameAt compares each separator-free input under the format and under its counterpart." + _COMMON,
 "C14": "Verify-form clauses FloatWrite!LayoutClauses (notation vs breaks, max/min counts, configured characters) on every output and relations OptionsRelationAt (digits = default digits rounded half-even / truncated, carry) and TrimRelationAt over episodes {default-digits twin, options, trim twins}, incl. the full product max x min x trim x round mode x breaks on carry / round-down / integral values; MC_FloatWrite explores the documented pipeline (1.9 M states) and shows the clauses accept it and the grammar reads it back." + _COMMON,
 "C15": "FloatParse!SpecialOf (whole input after the sign equals the configured string, case rule, separators only with the flag, never under no_special / None; numeric inputs first) and the writer clauses (NaN unsigned, -inf, signed zero, panic when disabled) on option-string families related by prefix, case flips, XOR-0x20 neighbours of non-letters, extensions, radices where letters are digits." + _COMMON,
 "C16": "Relation AdditiveAt: the same default-API call recorded under every build configuration must give identical results (float output bytes across non-compact builds; compact output must parse back to the same bits in the default build)." + _COMMON,
 "C17": "Relation FacadeEqualsCoreAt (lexical::* vs lexical_core::* on the same call in the same build) and the global clause 'every written byte < 128'." + _COMMON,
 "C18": "Format!FormatValidity / OptionsPunctuationValidity / Options validity and the builder state machine (MC_Builder: getter = last setter, rebuild fixpoint, validity monotone in the feature set) judge run-time builder episodes (sampled 2^18 syntax-flag and 2^13 separator-flag subsets, every byte for each character field, radix fields, setter sequences), the compiled catalogue (format_is_valid / format_error), option builders, and 'invalid format or punctuation yields a configuration error' on all parse entry points." + _COMMON,
 "C19": "Relation LossyAgreesAt (same acceptance, count and error; exact-fast-path class and clearly-outside zero/infinity bit-identical) plus Ieee!WithinOneUlp on every lossy result, on the near-halfway corpora of C01/C05 and on 16-19 digit mantissas (no truncation, beyond the exact fast path) dense in the decimal-exponent windows next to the fast path." + _COMMON,
}
NOTE = {}
TECH = {k: "explicit TLA+ specification; TLC bounded models + TLC trace validation of recorded API calls" for k in LEVEL}
