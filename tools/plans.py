#!/usr/bin/env python3
"""Per-property plans: which bounded models to run, which inputs to construct, which calls an
episode contains and under which build configurations.  No expectation is attached anywhere."""
import json, os, sys, time, random
import vlib, gens
from vlib import log
from gens import B, F32, F64

NAN = B("NaN")
INF = B("inf")
INFINITY = B("infinity")
PF_DEFAULT = {"lossy": False, "exp": 101, "point": 46, "nan": NAN, "inf": INF, "infinity": INFINITY}
WF_DEFAULT = {"max": 0, "min": 0, "pos": 9, "neg": -5, "round": "round", "trim": False, "exp": 101, "point": 46,
              "nan": NAN, "inf": INF}
PI_DEFAULT = {"nmd": True}
WI_DEFAULT = {}


def pf(**kw):
    o = dict(PF_DEFAULT)
    o.update(kw)
    return o


def wf(**kw):
    o = dict(WF_DEFAULT)
    o.update(kw)
    return o


class Cases:
    """Collects cases; each case lists the configurations it runs under."""

    def __init__(self):
        self.cases = []
        self.ep = 0
        self.nid = 0
        self.tags = {}

    def new_ep(self):
        self.ep += 1
        return self.ep

    def add(self, case, cfgs, tag=None):
        for cfg in cfgs:
            self.nid += 1
            c = dict(case)
            c["id"] = self.nid
            c["_cfg"] = cfg
            self.cases.append(c)
        if tag:
            self.tags[tag] = self.tags.get(tag, 0) + 1

    def parse(self, ep, ty, fmt, data, cfgs, partial=False, api="core", wo=False, opts=None, std=False, place="end",
              tag=None, **extra):
        isf = ty in ("f32", "f64")
        c = {"ep": ep, "op": "parse", "ty": ty, "fmt": fmt, "partial": partial, "api": api, "place": place,
             "in": B(data) if not isinstance(data, list) else data, "wo": wo,
             "opts": opts if opts is not None else (dict(PF_DEFAULT) if isf else dict(PI_DEFAULT))}
        if std:
            c["std"] = True
        c.update(extra)
        self.add(c, cfgs, tag)

    def write(self, ep, ty, fmt, val, cfgs, api="core", wo=False, opts=None, std=False, place="end", buflen=None,
              tag=None, **extra):
        isf = ty in ("f32", "f64")
        c = {"ep": ep, "op": "write", "ty": ty, "fmt": fmt, "api": api, "place": place, "val": val, "wo": wo,
             "opts": opts if opts is not None else (dict(WF_DEFAULT) if isf else dict(WI_DEFAULT))}
        if buflen is not None:
            c["buflen"] = buflen
        if std:
            c["std"] = True
        c.update(extra)
        self.add(c, cfgs, tag)


def execute(cs, wdir, profile="release", case_timeout=20):
    """Build the needed workers from /repo's working tree, run all cases, return events."""
    by = {}
    for c in cs.cases:
        by.setdefault(c["_cfg"], []).append({k: v for k, v in c.items() if k != "_cfg"})
    events = []
    for cfg in sorted(by):
        exe = vlib.build_worker(cfg, profile)
        name = cfg if profile == "release" else cfg + "-" + profile
        t0 = time.time()
        evs = vlib.run_cases(exe, name, by[cfg], wdir, case_timeout=case_timeout)
        log("[run] %s: %d cases %.1fs" % (name, len(by[cfg]), time.time() - t0))
        events.extend(evs)
    return events


def sample_events(events, k=6):
    out = []
    step = max(1, len(events) // k)
    for e in events[::step][:k]:
        s = vlib.strip_case(e)
        if isinstance(s.get("in"), list):
            s["in_text"] = bytes(s["in"]).decode("latin-1")[:120]
            if len(s["in"]) > 60:
                s["in"] = s["in"][:60] + ["..."]
        s["res"] = e.get("res")
        out.append(s)
    return out


def models_for(names, tier):
    res = []
    for (module, cfg, workers, timeout) in names:
        m = vlib.run_model(module, cfg, workers=workers, timeout=timeout)
        log("[model] %s/%s: %d states, %d transitions, ok=%s, %.1fs" % (module, cfg, m["states"], m["transitions"], m["ok"], m["wall"]))
        res.append(m)
    return res


# ================================================================================================
# C01

def plan_C01(tier, rng):
    cs = Cases()
    quick = tier == "quick"
    cfgs = ["default", "compact", "rf", "crf"] if quick else ["default", "compact", "rf", "crf", "pow2", "radix", "format", "nostd"]
    inputs = []
    for F in (F64, F32):
        nb = F["emax"] - F["emin"] + 1
        allb = list(range(F["emin"], F["emax"] + 1))
        if quick:
            binades = rng.sample(allb, 130 if F is F64 else 60)
            longb = set(rng.sample(binades, 12))
        else:
            binades = allb
            longb = set(rng.sample(allb, 150))
        hw = []
        for e in binades:
            hw += gens.halfway_inputs(F, rng, [e], pats_per=2 if quick else 3, long_ok=e in longb)
        inputs += [(s, t, F) for (s, t) in hw]
        qs = list(range(-342, 309)) if F is F64 else list(range(-65, 39))
        if quick:
            qs = rng.sample(qs, 160 if F is F64 else 50)
        inputs += [(s, t, F) for (s, t) in gens.lemire_row_inputs(F, rng, qs, per=1 if quick else 3)]
        fp = gens.fastpath_boundary(F, rng)
        if quick:
            fp = rng.sample(fp, 250)
        inputs += [(s, t, F) for (s, t) in fp]
        inputs += [(s, t, F) for (s, t) in gens.edge_inputs(F, rng)]
        inputs += [(s, t, F) for (s, t) in gens.random_decimal(rng, 400 if quick else 6000)]
        inputs += [(s, t, F) for (s, t) in gens.random_long_decimal(rng, 10 if quick else 150)]
    i = 0
    for (s, tag, F) in inputs:
        i += 1
        ep = cs.new_ep()
        ty = F["name"]
        other = "f32" if ty == "f64" else "f64"
        long_in = len(s) > 200
        # no-options API everywhere, with-options API (STANDARD) on a rotating configuration
        cs.parse(ep, ty, 0, s, cfgs, std=True, tag=tag)
        cs.parse(ep, ty, 0, s, [cfgs[i % len(cfgs)]], wo=True, opts=pf())
        cs.parse(ep, ty, 0, s, [cfgs[(i + 1) % len(cfgs)]], partial=True)
        if not long_in:
            cs.parse(ep, other, 0, s, [cfgs[(i + 2) % len(cfgs)], cfgs[(i + 3) % len(cfgs)]], std=True)
    models = [("MC_BigNat.tla", "MC_BigNat.cfg", 4, 600), ("MC_Ieee.tla", "MC_Ieee.cfg", 4, 900)]
    return cs, models, {"input_families": cs.tags, "configurations": cfgs}


PLANS = {"C01": plan_C01}

ASSUME = {
    "C01": ["TLC 1.8.0 and the CommunityModules Json/IOUtils overrides evaluate the specification faithfully",
            "the worker's ~30-line decomposition of f32/f64 bits into (sign, class, integer significand, binary exponent) is right",
            "coverage is by construction (halfway points, table rows, fast-path limits, extremes) plus seeded sampling, not universal"],
}


def run(prop, tier, seed, t0):
    if prop not in PLANS:
        log("no plan for " + prop)
        return 2
    rng = random.Random(seed * 1000003 + sum(map(ord, prop)))
    wdir = os.path.join(vlib.WORK, "%s-%s-%d" % (prop, tier, os.getpid()))
    os.makedirs(wdir, exist_ok=True)
    vlib.regen_catalogue()
    cs, models, extra = PLANS[prop](tier, rng)
    log("[plan] %s %s: %d cases in %d episodes" % (prop, tier, len(cs.cases), cs.ep))
    events = execute(cs, wdir)
    mres = models_for(models, tier)
    t1 = time.time()
    result = vlib.judge(events, wdir)
    log("[judge] %d events, %d shards, %.1fs, %d mismatches" % (result["events"], result["shards"], time.time() - t1, len(result["mismatches"])))
    rc = vlib.finish(prop, tier, seed, t0, result, mres, sample_events(events), extra_cov=extra,
                     assumptions=ASSUME.get(prop, []))
    import shutil
    if rc == 0:
        shutil.rmtree(wdir, ignore_errors=True)
    return rc


def replay(path):
    d = json.load(open(path))
    prop = d["property"]
    cs = Cases()
    for c in d["cases"]:
        c = dict(c)
        cfg = c.pop("cfg", "default")
        base, _, prof = cfg.partition("-")
        c["_cfg"] = base
        cs.cases.append(c)
    wdir = os.path.join(vlib.WORK, "replay-%d" % os.getpid())
    os.makedirs(wdir, exist_ok=True)
    events = execute(cs, wdir)
    result = vlib.judge(events, wdir, nshards=1)
    t0 = time.time()
    n = 0
    for mm in result["mismatches"]:
        if mm["prop"] == prop:
            n += 1
            print("VIOLATION property=%s replay=%s  # %s" % (prop, path, mm["why"]))
    if n == 0:
        print("replay: no violation of %s reproduced" % prop)
    return 1 if n else 0

LEVEL = {}
NOTE = {}
TECH = {}
