#!/bin/bash
# usage: tools/seedtest2.sh <scratch-root> <PROP> <seed-id> [check ...]      (round-2 layout)
#   <scratch-root>/<PROP>      scratch worktree with the change applied
#   <scratch-root>/<PROP>-out  patch.diff, demo/ (crate with path deps on the worktree), NOTES.md
# 1. confirm in the scratch worktree: suite passes with the change, demo fails with / passes without
# 2. copy patch + demo + notes to seeded/<seed-id>/
# 3. apply the patch to /repo, run the given quick checks, undo the patch (skipped with NOAPPLY=1)
set -u
ROOT=$1; PROP=$2; ID=$3; shift 3
WT=$ROOT/$PROP; SRC=$ROOT/$PROP-out
OUT=/verif/seeded/$ID
mkdir -p $OUT
cd $WT || exit 2
git diff > $OUT/patch.diff
[ -s $OUT/patch.diff ] || { cp $SRC/patch.diff $OUT/patch.diff; git apply $OUT/patch.diff || exit 2; }
echo "== suite with the change"
cargo test --workspace --no-fail-fast --offline > /tmp/seed_suite_$PROP.log 2>&1; SUITE=$?
echo "suite rc=$SUITE"
DEMO_CMD="cargo test --offline"
[ -f $SRC/demo/src/main.rs ] && ! grep -q "#\[test\]" $SRC/demo/src/main.rs && DEMO_CMD="cargo run --offline"
echo "== demo with the change: $DEMO_CMD"
(cd $SRC/demo && timeout 900 $DEMO_CMD > /tmp/seed_demo_with_$PROP.log 2>&1); WITH=$?
git stash -q
echo "== demo without the change"
(cd $SRC/demo && timeout 900 $DEMO_CMD > /tmp/seed_demo_without_$PROP.log 2>&1); WITHOUT=$?
git stash pop -q
echo "demo with=$WITH without=$WITHOUT"
rm -rf $OUT/demo; mkdir -p $OUT/demo; (cd $SRC/demo && tar cf - --exclude=target . ) | (cd $OUT/demo && tar xf -)
cp -f $SRC/NOTES.md $OUT/NOTES.md 2>/dev/null
RES=""
if [ "${NOAPPLY:-0}" != "1" ] && [ $SUITE -eq 0 ] && [ $WITH -ne 0 ] && [ $WITHOUT -eq 0 ]; then
  cd /verif
  git -C /repo apply $OUT/patch.diff || { echo "patch does not apply to /repo"; exit 2; }
  for c in "$@"; do
    python3 tools/run_check.py $c quick > /tmp/seed_check_$c.log 2>&1; rc=$?
    nv=$(grep -c "^VIOLATION property=$c" /tmp/seed_check_$c.log)
    echo "check $c rc=$rc violations=$nv"; grep "^VIOLATION" /tmp/seed_check_$c.log | head -2 | cut -c1-200
    RES="$RES $c:rc=$rc:viol=$nv"
  done
  git -C /repo checkout -- .
fi
python3 - "$ID" "$PROP" "$SUITE" "$WITH" "$WITHOUT" "$RES" "$DEMO_CMD" <<'PY'
import json,sys,os
id_,prop,suite,w,wo,res,cmd=sys.argv[1:8]
p='/verif/seeded/%s/meta.json'%id_
notes=open('/verif/seeded/%s/NOTES.md'%id_).read() if os.path.exists('/verif/seeded/%s/NOTES.md'%id_) else ''
meta=json.load(open(p)) if os.path.exists(p) else {}
meta.update({"id":id_,"breaks_property":prop,"source":"independent sub-agent (round 2) given only the property text and a scratch worktree",
      "needs_to_manifest":notes[:1500],
      "confirmed":{"pinned_suite_with_change_rc":int(suite),"demo_cmd":cmd,"demo_with_change_rc":int(w),"demo_without_change_rc":int(wo)}})
if res.split():
    meta["checks_run"]=[dict(zip(("check","rc","violations"),(x.split(':')[0],x.split(':')[1][3:],x.split(':')[2][5:]))) for x in res.split()]
json.dump(meta,open(p,'w'),indent=1)
print(json.dumps(meta["confirmed"]), meta.get("checks_run"))
PY
