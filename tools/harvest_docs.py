#!/usr/bin/env python3
"""Harvest the documented examples of lexical-util/src/format_builder.rs:
  * the hidden `<!-- TEST ... -->` doctest blocks (executed upstream by scripts/docs.py), and
  * the `| Input | Valid? |` tables of the boolean flag setters.
Output: ndjson of {"src","line","calls","ty","in","expect":"ok"|"err","code","value"} used to validate the
*specification* (spec/MC_Docs.tla) before it is allowed to judge code, and replayed against the code."""
import json, os, re, sys

SRC = "/repo/lexical-util/src/format_builder.rs"
OUT = os.path.join(os.path.dirname(os.path.abspath(__file__)), "..", "harness", "docs.ndjson")

ARG_U8 = re.compile(r"num::NonZeroU8::new\((b'(\\?.)'|\d+)\)")


def parse_arg(a):
    a = a.strip()
    if a in ("true", "false"):
        return a == "true"
    m = ARG_U8.fullmatch(a)
    if m:
        if m.group(2) is not None:
            c = m.group(2)
            return ord(c[-1])
        return int(m.group(1))
    if a == "None":
        return 0
    if a.isdigit():
        return int(a)
    m = re.fullmatch(r"b'(.)'", a)
    if m:
        return ord(m.group(1))
    raise ValueError("arg " + a)


def parse_chain(expr):
    """NumberFormatBuilder::new().a(x).b(y).build_strict() -> [[name,arg],...]"""
    expr = re.sub(r"\s+", "", expr)
    m = re.match(r"NumberFormatBuilder::(new|from_radix|decimal|binary|octal|hexadecimal)\(([^)]*)\)(.*)$", expr)
    if not m:
        raise ValueError("chain " + expr[:60])
    calls = []
    if m.group(1) != "new":
        calls.append([m.group(1), int(m.group(2)) if m.group(2) else 0])
    rest = m.group(3)
    for cm in re.finditer(r"\.([a-z_0-9]+)\(((?:[^()]|\([^()]*\))*)\)", rest):
        name, arg = cm.group(1), cm.group(2)
        if name in ("build_strict", "build_unchecked", "build"):
            break
        calls.append([name, parse_arg(arg)])
    return calls


def unescape(b):
    return list(bytes(b, "utf-8").decode("unicode_escape").encode("latin-1"))


def main():
    lines = open(SRC).read().split("\n")
    out = []
    i = 0
    n = len(lines)
    while i < n:
        ln = lines[i]
        if "<!-- TEST" in ln:
            j = i
            block = []
            while "-->" not in lines[j]:
                block.append(re.sub(r"^\s*///\s?", "", lines[j]))
                j += 1
            text = "\n".join(block)
            consts = {}
            # macros like exp_radix!($exp)
            macros = {}
            for mm in re.finditer(r"macro_rules!\s*(\w+)\s*\{\s*\(\$(\w+):literal\)\s*=>\s*\{(.*?)\};\s*\}", text, re.S):
                macros[mm.group(1)] = (mm.group(2), mm.group(3))
            for cm in re.finditer(r"const\s+(\w+):\s*u128\s*=\s*(.*?);", text, re.S):
                name, expr = cm.group(1), cm.group(2)
                try:
                    mm = re.match(r"\s*(\w+)!\((\d+)\)", expr)
                    if mm and mm.group(1) in macros:
                        var, body = macros[mm.group(1)]
                        expr = body.replace("$" + var, mm.group(2))
                    consts[name] = parse_chain(expr)
                except ValueError as e:
                    pass
            optsets = {"PF_OPTS": {}, "PI_OPTS": {}}
            for om in re.finditer(r"const\s+(\w+):\s*Parse(Float|Integer)Options\s*=\s*Parse\w+Options::from_radix\((\d+)\)", text):
                optsets[om.group(1)] = {"radix": int(om.group(3))}
            for am in re.finditer(r"assert_eq!\(parse_with_options::<(\w+),\s*(\w+)>\(b\"((?:[^\"\\]|\\.)*)\",\s*&(\w+)\),\s*(Ok\((.*?)\)|Err\(Error::(\w+)(?:\((\d+)\))?\))\);", text):
                ty, fname, inp, oname, res, okv, code, idx = am.groups()
                if fname == "STANDARD":
                    calls = []
                elif fname in consts:
                    calls = consts[fname]
                else:
                    continue
                if oname not in optsets:
                    continue
                ev = {"src": "doctest", "line": i + 1, "calls": calls, "ty": ty, "in": unescape(inp),
                      "expect": "ok" if res.startswith("Ok") else "err", "code": code or "", "idx": int(idx) if idx else -1,
                      "value": okv or "", "optradix": optsets[oname].get("radix", 10)}
                out.append(ev)
            i = j
        i += 1
    # tables of the boolean flag setters: the table sits in the doc comment right above `pub const fn <flag>(mut self, flag: bool)`
    for k, ln in enumerate(lines):
        m = re.match(r"\s*pub const fn (\w+)\(mut self, flag: bool\) -> Self", ln)
        if not m:
            continue
        name = m.group(1)
        if "digit_separator" in name or name in ("required_digits", "required_mantissa_digits"):   # polarity of that table is unclear
            continue
        # walk up through the doc comment
        j = k - 1
        rows = []
        while j >= 0 and (lines[j].strip().startswith("///") or lines[j].strip().startswith("#[")):
            rm = re.match(r"\s*/// \| `?([^|`]*)`? \| (✔️|❌) \|", lines[j])
            if rm:
                rows.append((rm.group(1), rm.group(2) == "✔️", j + 1))
            j -= 1
        extra = []
        if name == "case_sensitive_base_prefix":
            extra = [["base_prefix", 120]]
        if name == "case_sensitive_base_suffix":
            extra = [["base_suffix", 120]]
        for (inp, ok, line) in rows:
            out.append({"src": "table", "line": line, "calls": extra + [[name, True]], "ty": "i64" if "integer_leading" in name else "f64",
                        "in": list(inp.encode("utf-8")), "expect": "ok" if ok else "err", "code": "", "idx": -1, "value": "", "optradix": 10})
    with open(OUT, "w") as f:
        for e in out:
            f.write(json.dumps(e, separators=(",", ":")) + "\n")
    nd = sum(1 for e in out if e["src"] == "doctest")
    print("harvested %d doctest assertions and %d table rows -> %s" % (nd, len(out) - nd, OUT))


def prebuilt():
    """definitions of the prebuilt language formats (setter chains) -> harness/prebuilt.json"""
    src = open("/repo/lexical-util/src/prebuilt_formats.rs").read()
    out = []
    for m in re.finditer(r"pub const ([A-Z0-9_]+): u128 = (NumberFormatBuilder::new\(\).*?\.build_strict\(\));", src, re.S):
        try:
            out.append((m.group(1), parse_chain(m.group(2))))
        except ValueError:
            pass
    p = os.path.join(os.path.dirname(OUT), "prebuilt.json")
    new = json.dumps(out)
    if not os.path.exists(p) or open(p).read() != new:
        open(p, "w").write(new)
    print("harvested %d prebuilt format definitions" % len(out))


if __name__ == "__main__":
    main()
    prebuilt()
