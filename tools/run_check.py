#!/usr/bin/env python3
"""Entry point of every check:  run_check.py <property> quick|thorough   |   --replay <file>

Exit 0: property held on everything explored (KNOWN-FINDING lines possible); 1: VIOLATION line(s);
2: tool error (build failure, TLC error/timeout, specification disputed by Rust std)."""
import json, os, sys, time, random, traceback

sys.path.insert(0, os.path.dirname(os.path.abspath(__file__)))
import vlib
from vlib import log
import plans


def main():
    args = sys.argv[1:]
    if len(args) >= 2 and args[0] == "--replay":
        return plans.replay(args[1])
    if len(args) >= 3 and args[1] == "--replay":
        return plans.replay(args[2])
    if len(args) < 1:
        print(__doc__)
        return 2
    prop = args[0]
    tier = args[1] if len(args) > 1 else os.environ.get("VERIF_TIER", "quick")
    if tier not in ("quick", "thorough"):
        tier = "quick"
    seed = int(os.environ.get("VERIF_SEED", "20260926"))
    t0 = time.time()
    try:
        return plans.run(prop, tier, seed, t0)
    except vlib.ToolError as e:
        log("TOOL ERROR: %s" % e)
        return 2
    except Exception:
        traceback.print_exc()
        return 2


if __name__ == "__main__":
    sys.exit(main())
