#!/usr/bin/env python3
"""Debug aid (not a registered check): run the plan of a property and print every mismatch grouped by (property, reason)."""
import json, os, sys, random, time, collections
sys.path.insert(0, os.path.dirname(os.path.abspath(__file__)))
import vlib, plans

prop = sys.argv[1]
tier = sys.argv[2] if len(sys.argv) > 2 else "quick"
seed = int(os.environ.get("VERIF_SEED", "1"))
rng = random.Random(seed * 1000003 + sum(map(ord, prop)))
wdir = os.path.join(vlib.WORK, "dbg-%s" % prop)
os.makedirs(wdir, exist_ok=True)
cs, models, extra = plans.PLANS[prop](tier, rng)
ev = plans.execute(cs, wdir)
if "phase2" in extra:
    cs2 = plans.Cases(); cs2.nid = cs.nid
    extra.pop("phase2")(ev, cs2)
    ev += plans.execute(cs2, wdir)
for e in ev:
    e.pop("_cfgname", None)
r = vlib.judge(ev, wdir)
by = collections.defaultdict(list)
byid = {e["id"]: e for e in ev}
for m in r["mismatches"]:
    by[(m["prop"], m["why"])].append(m)
F = vlib.load_formats()
for (p, w), ms in sorted(by.items(), key=lambda x: -len(x[1])):
    print("== %s %s : %d" % (p, w, len(ms)))
    for m in ms[:int(os.environ.get("N", "4"))]:
        e = m.get("event") or byid.get(m.get("id"))
        if e:
            print("   fmt=%s(%s) ty=%s partial=%s in=%r res=%s" % (e.get("fmt"), F[e["fmt"]]["name"] if isinstance(e.get("fmt"), int) else "", e.get("ty"), e.get("partial"),
                  bytes(e["in"]).decode("latin-1") if isinstance(e.get("in"), list) else e.get("val"), json.dumps(e.get("res"))[:200]))
        else:
            print("   ", json.dumps(m)[:300])
