//! Conformance worker library: the worker reads newline-delimited JSON cases on stdin, performs exactly one public
//! lexical API call per case (under catch_unwind, on guard-paged buffers) and prints one JSON
//! event per case on stdout.  The worker never decides a verdict; TLC does (spec/Trace*.tla).
#![allow(clippy::all)]

pub mod guard;

use guard::Guarded;
use lexical_core::{
    FormattedSize, FromLexical, FromLexicalWithOptions, ToLexical, ToLexicalWithOptions,
};
use lexical_core::{
    NumberFormatBuilder, ParseFloatOptions, ParseIntegerOptions, WriteFloatOptions,
    WriteIntegerOptions,
};
use serde_json::{json, Map, Value};
use std::collections::HashMap;
use std::num::{NonZeroI32, NonZeroU8, NonZeroUsize};
use std::panic::{catch_unwind, AssertUnwindSafe};
use std::sync::Mutex;


/// which internal stage answered the last float parse (verification hooks in lexical-util, --cfg lexical_verif)
#[cfg(lexical_verif)]
pub fn parse_tier_name() -> &'static str {
    match lexical_util::verif::take_parse_tier() {
        lexical_util::verif::PARSE_FAST => "fast",
        lexical_util::verif::PARSE_MODERATE => "moderate",
        lexical_util::verif::PARSE_SLOW => "slow",
        lexical_util::verif::PARSE_SPECIAL => "special",
        _ => "none",
    }
}
#[cfg(not(lexical_verif))]
pub fn parse_tier_name() -> &'static str {
    "unknown"
}

#[cfg(lexical_verif)]
pub fn write_tier_name() -> &'static str {
    match lexical_util::verif::take_write_tier() {
        lexical_util::verif::WRITE_DRAGONBOX_NORMAL => "dragonbox_normal",
        lexical_util::verif::WRITE_DRAGONBOX_SHORTER => "dragonbox_shorter",
        lexical_util::verif::WRITE_GRISU => "grisu",
        lexical_util::verif::WRITE_BINARY => "binary",
        lexical_util::verif::WRITE_RADIX => "radix",
        _ => "none",
    }
}
#[cfg(not(lexical_verif))]
pub fn write_tier_name() -> &'static str {
    "unknown"
}

pub fn feat_json() -> Value {
    json!({"std":cfg!(feature = "std"),"compact":cfg!(feature = "compact"),
           "pow2":cfg!(feature = "pow2"),"radix":cfg!(feature = "radix"),"format":cfg!(feature = "format"),
           "dbg":cfg!(debug_assertions)})
}

pub fn cfg_name() -> String {
    let mut v: Vec<&str> = Vec::new();
    if cfg!(feature = "std") { v.push("std"); }
    if cfg!(feature = "compact") { v.push("compact"); }
    if cfg!(feature = "pow2") { v.push("pow2"); }
    if cfg!(feature = "radix") { v.push("radix"); }
    if cfg!(feature = "format") { v.push("format"); }
    if cfg!(debug_assertions) { v.push("dbg"); }
    v.join("+")
}

// ---------------------------------------------------------------------------------------------
// small helpers

pub fn bytes_of(v: &Value) -> Vec<u8> {
    match v {
        Value::Array(a) => a.iter().map(|x| x.as_u64().unwrap_or(0) as u8).collect(),
        Value::String(s) => s.as_bytes().to_vec(),
        _ => Vec::new(),
    }
}

pub fn arr(b: &[u8]) -> Value {
    Value::Array(b.iter().map(|&x| Value::from(x)).collect())
}

fn dec_digits(s: &str) -> Value {
    Value::Array(s.bytes().map(|b| Value::from(b - b'0')).collect())
}

static LEAKED: Mutex<Option<HashMap<Vec<u8>, &'static [u8]>>> = Mutex::new(None);

fn leak(b: Vec<u8>) -> &'static [u8] {
    let mut g = LEAKED.lock().unwrap();
    let m = g.get_or_insert_with(HashMap::new);
    if let Some(s) = m.get(&b) {
        return s;
    }
    let s: &'static [u8] = Box::leak(b.clone().into_boxed_slice());
    m.insert(b, s);
    s
}

/// option strings: absent -> keep default; null, "none" or (outside the options op) [] -> None
fn opt_str(v: Option<&Value>) -> Option<Option<&'static [u8]>> {
    match v {
        None => None,
        Some(Value::Null) => Some(None),
        Some(Value::String(s)) if s == "none" => Some(None),
        Some(Value::Object(o)) => {
            if o.get("some").and_then(|x| x.as_bool()).unwrap_or(false) {
                Some(Some(leak(bytes_of(o.get("s").unwrap_or(&Value::Null)))))
            } else {
                Some(None)
            }
        }
        Some(Value::Array(a)) if a.is_empty() && !EMPTY_IS_SOME.load(std::sync::atomic::Ordering::Relaxed) => Some(None),
        Some(x) => Some(Some(leak(bytes_of(x)))),
    }
}
static EMPTY_IS_SOME: std::sync::atomic::AtomicBool = std::sync::atomic::AtomicBool::new(false);

fn err_json(e: lexical_core::Error) -> Value {
    let s = format!("{:?}", e);
    let code = s.split('(').next().unwrap_or("").to_string();
    match e.index() {
        Some(i) => json!({"k":"err","code":code,"idx":*i as u64}),
        None => json!({"k":"err","code":code,"idx":-1}),
    }
}

fn panic_msg(p: Box<dyn std::any::Any + Send>) -> String {
    if let Some(s) = p.downcast_ref::<&str>() {
        s.to_string()
    } else if let Some(s) = p.downcast_ref::<String>() {
        s.clone()
    } else {
        "?".to_string()
    }
}

// ---------------------------------------------------------------------------------------------
// the numeric types

pub trait Num:
    Copy + 'static + FormattedSize + FromLexical + FromLexicalWithOptions + ToLexical + ToLexicalWithOptions
{
    const NAME: &'static str;
    const IS_FLOAT: bool;
    fn decomp(self) -> Value;
    fn from_val(v: &Value) -> Self;
    fn std_parse(s: &[u8]) -> Value;
    fn std_write(self) -> Value;
    fn popts(v: &Value) -> (<Self as FromLexicalWithOptions>::Options, bool);
    fn wopts(v: &Value) -> (<Self as ToLexicalWithOptions>::Options, bool);
    fn bsc<const F: u128>(o: &<Self as ToLexicalWithOptions>::Options) -> usize;
}

fn parse_float_opts(v: &Value) -> (ParseFloatOptions, bool) {
    let mut b = ParseFloatOptions::builder();
    if let Some(x) = v.get("lossy").and_then(|x| x.as_bool()) {
        b = b.lossy(x);
    }
    if let Some(x) = v.get("exp").and_then(|x| x.as_u64()) {
        b = b.exponent(x as u8);
    }
    if let Some(x) = v.get("point").and_then(|x| x.as_u64()) {
        b = b.decimal_point(x as u8);
    }
    if let Some(x) = opt_str(v.get("nan")) {
        b = b.nan_string(x);
    }
    if let Some(x) = opt_str(v.get("inf")) {
        b = b.inf_string(x);
    }
    if let Some(x) = opt_str(v.get("infinity")) {
        b = b.infinity_string(x);
    }
    let valid = b.is_valid();
    (b.build_unchecked(), valid)
}

fn parse_int_opts(v: &Value) -> (ParseIntegerOptions, bool) {
    let mut b = ParseIntegerOptions::builder();
    if let Some(x) = v.get("nmd").and_then(|x| x.as_bool()) {
        b = b.no_multi_digit(x);
    }
    let valid = b.is_valid();
    (b.build_unchecked(), valid)
}

fn write_float_opts(v: &Value) -> (WriteFloatOptions, bool) {
    let mut b = WriteFloatOptions::builder();
    if let Some(x) = v.get("max") {
        b = b.max_significant_digits(x.as_u64().and_then(|n| NonZeroUsize::new(n as usize)));
    }
    if let Some(x) = v.get("min") {
        b = b.min_significant_digits(x.as_u64().and_then(|n| NonZeroUsize::new(n as usize)));
    }
    if let Some(x) = v.get("pos") {
        b = b.positive_exponent_break(x.as_i64().and_then(|n| NonZeroI32::new(n as i32)));
    }
    if let Some(x) = v.get("neg") {
        b = b.negative_exponent_break(x.as_i64().and_then(|n| NonZeroI32::new(n as i32)));
    }
    if let Some(x) = v.get("round").and_then(|x| x.as_str()) {
        b = b.round_mode(if x == "truncate" {
            lexical_core::write_float_options::RoundMode::Truncate
        } else {
            lexical_core::write_float_options::RoundMode::Round
        });
    }
    if let Some(x) = v.get("trim").and_then(|x| x.as_bool()) {
        b = b.trim_floats(x);
    }
    if let Some(x) = v.get("exp").and_then(|x| x.as_u64()) {
        b = b.exponent(x as u8);
    }
    if let Some(x) = v.get("point").and_then(|x| x.as_u64()) {
        b = b.decimal_point(x as u8);
    }
    if let Some(x) = opt_str(v.get("nan")) {
        b = b.nan_string(x);
    }
    if let Some(x) = opt_str(v.get("inf")) {
        b = b.inf_string(x);
    }
    let valid = b.is_valid();
    (b.build_unchecked(), valid)
}

macro_rules! impl_float {
    ($t:ident, $u:ident, $name:literal, $mbits:expr, $ebits:expr) => {
        impl Num for $t {
            const NAME: &'static str = $name;
            const IS_FLOAT: bool = true;
            fn decomp(self) -> Value {
                let bits = self.to_bits() as u64;
                let neg = (bits >> ($mbits + $ebits)) & 1 == 1;
                let ef = (bits >> $mbits) & ((1u64 << $ebits) - 1);
                let mf = bits & ((1u64 << $mbits) - 1);
                let bias: i64 = (1i64 << ($ebits - 1)) - 1 + $mbits;
                let bh = format!("{:x}", bits);
                if ef == (1u64 << $ebits) - 1 {
                    if mf == 0 {
                        json!({"neg":neg,"cls":"inf","m":[],"e":0,"bits":bh})
                    } else {
                        json!({"neg":neg,"cls":"nan","m":[],"e":0,"bits":bh})
                    }
                } else if ef == 0 {
                    if mf == 0 {
                        json!({"neg":neg,"cls":"zero","m":[],"e":0,"bits":bh})
                    } else {
                        let tz = mf.trailing_zeros();
                        json!({"neg":neg,"cls":"finite","m":dec_digits(&mf.to_string()),"e":1-bias,"bits":bh,
                               "mo":dec_digits(&(mf >> tz).to_string()),"eo":1-bias+tz as i64})
                    }
                } else {
                    let m = mf | (1u64 << $mbits);
                    let tz = m.trailing_zeros();
                    json!({"neg":neg,"cls":"finite","m":dec_digits(&m.to_string()),"e":ef as i64 - bias,"bits":bh,
                           "mo":dec_digits(&(m >> tz).to_string()),"eo":ef as i64 - bias + tz as i64})
                }
            }
            fn from_val(v: &Value) -> Self {
                let s = v.as_str().unwrap_or("0");
                <$t>::from_bits(<$u>::from_str_radix(s, 16).unwrap_or(0))
            }
            fn std_parse(s: &[u8]) -> Value {
                match std::str::from_utf8(s).ok().and_then(|x| x.parse::<$t>().ok()) {
                    Some(v) => json!({"k":"ok","v":v.decomp()}),
                    None => json!({"k":"err"}),
                }
            }
            fn std_write(self) -> Value {
                arr(format!("{:e}", self).as_bytes())
            }
            fn popts(v: &Value) -> (ParseFloatOptions, bool) {
                parse_float_opts(v)
            }
            fn wopts(v: &Value) -> (WriteFloatOptions, bool) {
                write_float_opts(v)
            }
            fn bsc<const F: u128>(o: &WriteFloatOptions) -> usize {
                o.buffer_size_const::<$t, F>()
            }
        }
    };
}

macro_rules! impl_int {
    ($($t:ident)*) => {$(
        impl Num for $t {
            const NAME: &'static str = stringify!($t);
            const IS_FLOAT: bool = false;
            fn decomp(self) -> Value {
                let s = self.to_string();
                let neg = s.starts_with('-');
                json!({"neg":neg,"d":dec_digits(s.trim_start_matches('-'))})
            }
            fn from_val(v: &Value) -> Self {
                v.as_str().unwrap_or("0").parse::<$t>().unwrap_or(0)
            }
            fn std_parse(s: &[u8]) -> Value {
                match std::str::from_utf8(s).ok().and_then(|x| x.parse::<$t>().ok()) {
                    Some(v) => json!({"k":"ok","v":v.decomp()}),
                    None => json!({"k":"err"}),
                }
            }
            fn std_write(self) -> Value {
                arr(self.to_string().as_bytes())
            }
            fn popts(v: &Value) -> (ParseIntegerOptions, bool) {
                parse_int_opts(v)
            }
            fn wopts(_v: &Value) -> (WriteIntegerOptions, bool) {
                let b = WriteIntegerOptions::builder();
                let valid = b.is_valid();
                (b.build_unchecked(), valid)
            }
            fn bsc<const F: u128>(o: &WriteIntegerOptions) -> usize {
                o.buffer_size_const::<$t, F>()
            }
        }
    )*};
}

impl_float!(f32, u32, "f32", 23, 8);
impl_float!(f64, u64, "f64", 52, 11);
impl_int!(u8 u16 u32 u64 u128 usize i8 i16 i32 i64 i128 isize);

// ---------------------------------------------------------------------------------------------
// one API call

fn do_parse<T: Num, const F: u128>(c: &Value) -> Value {
    let input = bytes_of(&c["in"]);
    let at_end = c.get("place").and_then(|x| x.as_str()).unwrap_or("end") != "start";
    let mut g = Guarded::new(input.len(), at_end);
    g.slice_mut().copy_from_slice(&input);
    let partial = c.get("partial").and_then(|x| x.as_bool()).unwrap_or(false);
    let facade = c.get("api").and_then(|x| x.as_str()) == Some("facade");
    let has_opts = c.get("wo").and_then(|x| x.as_bool()).unwrap_or(false);
    let mut extra = Map::new();
    let _ = parse_tier_name();
    let res = {
        let s: &[u8] = g.slice();
        let r = catch_unwind(AssertUnwindSafe(|| -> Value {
            if has_opts {
                let (o, valid) = T::popts(&c["opts"]);
                extra.insert("opts_valid".into(), Value::from(valid));
                if partial {
                    let r = if facade {
                        lexical::parse_partial_with_options::<T, _, F>(s, &o)
                    } else {
                        lexical_core::parse_partial_with_options::<T, F>(s, &o)
                    };
                    match r {
                        Ok((v, n)) => json!({"k":"ok","v":v.decomp(),"n":n as u64}),
                        Err(e) => err_json(e),
                    }
                } else {
                    let r = if facade {
                        lexical::parse_with_options::<T, _, F>(s, &o)
                    } else {
                        lexical_core::parse_with_options::<T, F>(s, &o)
                    };
                    match r {
                        Ok(v) => json!({"k":"ok","v":v.decomp(),"n":s.len() as u64}),
                        Err(e) => err_json(e),
                    }
                }
            } else if partial {
                let r = if facade {
                    lexical::parse_partial::<T, _>(s)
                } else {
                    lexical_core::parse_partial::<T>(s)
                };
                match r {
                    Ok((v, n)) => json!({"k":"ok","v":v.decomp(),"n":n as u64}),
                    Err(e) => err_json(e),
                }
            } else {
                let r = if facade { lexical::parse::<T, _>(s) } else { lexical_core::parse::<T>(s) };
                match r {
                    Ok(v) => json!({"k":"ok","v":v.decomp(),"n":s.len() as u64}),
                    Err(e) => err_json(e),
                }
            }
        }));
        match r {
            Ok(v) => v,
            Err(p) => json!({"k":"panic","msg":panic_msg(p)}),
        }
    };
    let mut ev = Map::new();
    ev.insert("res".into(), res);
    ev.insert("len".into(), Value::from(input.len() as u64));
    ev.insert("tier".into(), Value::from(parse_tier_name()));
    if c.get("std").and_then(|x| x.as_bool()).unwrap_or(false) {
        ev.insert("std".into(), T::std_parse(&input));
    }
    for (k, v) in extra {
        ev.insert(k, v);
    }
    Value::Object(ev)
}

fn buflen_of(c: &Value, fs: usize, fsd: usize, bsc: usize) -> usize {
    match c.get("buflen") {
        Some(Value::Number(n)) => n.as_u64().unwrap_or(0) as usize,
        Some(Value::Object(o)) => {
            let base = match o.get("sym").and_then(|x| x.as_str()).unwrap_or("bsc") {
                "fs" => fs,
                "fsd" => fsd,
                _ => bsc,
            } as i64;
            let d = o.get("d").and_then(|x| x.as_i64()).unwrap_or(0);
            (base + d).max(0) as usize
        }
        _ => bsc.max(fs).max(fsd),
    }
}

fn do_write<T: Num, const F: u128>(c: &Value) -> Value {
    let v = T::from_val(&c["val"]);
    let facade = c.get("api").and_then(|x| x.as_str()) == Some("facade");
    let has_opts = c.get("wo").and_then(|x| x.as_bool()).unwrap_or(false);
    let at_end = c.get("place").and_then(|x| x.as_str()).unwrap_or("end") != "start";
    let fs = T::FORMATTED_SIZE;
    let fsd = T::FORMATTED_SIZE_DECIMAL;
    let mut ev = Map::new();
    ev.insert("v".into(), v.decomp());
    let (o, valid) = T::wopts(if has_opts { &c["opts"] } else { &Value::Null });
    let bsc = match catch_unwind(AssertUnwindSafe(|| T::bsc::<F>(&o))) {
        Ok(x) => x,
        Err(_) => usize::MAX >> 8,
    };
    ev.insert("opts_valid".into(), Value::from(valid));
    ev.insert("bound".into(), json!({"fs":fs as u64,"fsd":fsd as u64,"bsc":bsc.min(1 << 30) as u64}));
    let res = if facade {
        let r = catch_unwind(AssertUnwindSafe(|| {
            if has_opts {
                lexical::to_string_with_options::<T, F>(v, &o)
            } else {
                lexical::to_string(v)
            }
        }));
        match r {
            Ok(s) => json!({"k":"ok","out":arr(s.as_bytes()),"at0":true,"canary":true}),
            Err(p) => json!({"k":"panic","msg":panic_msg(p)}),
        }
    } else {
        let buflen = buflen_of(c, fs, fsd, bsc.min(1 << 20)).min(1 << 22);
        ev.insert("buflen".into(), Value::from(buflen as u64));
        let mut g = Guarded::new(buflen, at_end);
        let start = g.start_ptr();
        let r = {
            let buf = g.slice_mut();
            catch_unwind(AssertUnwindSafe(|| {
                let out: &mut [u8] = if has_opts {
                    lexical_core::write_with_options::<T, F>(v, buf, &o)
                } else {
                    lexical_core::write::<T>(v, buf)
                };
                (out.as_ptr() as usize, out.to_vec())
            }))
        };
        let canary = g.canary_ok();
        match r {
            Ok((p, out)) => {
                json!({"k":"ok","out":arr(&out),"at0":p == start as usize,"canary":canary})
            }
            Err(p) => json!({"k":"panic","msg":panic_msg(p),"canary":canary}),
        }
    };
    ev.insert("res".into(), res);
    ev.insert("tier".into(), Value::from(write_tier_name()));
    if c.get("std").and_then(|x| x.as_bool()).unwrap_or(false) {
        ev.insert("std".into(), v.std_write());
    }
    Value::Object(ev)
}

pub fn run_ty<T: Num, const F: u128>(c: &Value) -> Value {
    match c["op"].as_str().unwrap_or("") {
        "parse" => do_parse::<T, F>(c),
        "write" => do_write::<T, F>(c),
        _ => json!({"res":{"k":"badop"}}),
    }
}

/// all 14 types
pub fn run_all<const F: u128>(c: &Value) -> Value {
    match c["ty"].as_str().unwrap_or("") {
        "f32" => run_ty::<f32, F>(c),
        "f64" => run_ty::<f64, F>(c),
        "u8" => run_ty::<u8, F>(c),
        "u16" => run_ty::<u16, F>(c),
        "u32" => run_ty::<u32, F>(c),
        "u64" => run_ty::<u64, F>(c),
        "u128" => run_ty::<u128, F>(c),
        "usize" => run_ty::<usize, F>(c),
        "i8" => run_ty::<i8, F>(c),
        "i16" => run_ty::<i16, F>(c),
        "i32" => run_ty::<i32, F>(c),
        "i64" => run_ty::<i64, F>(c),
        "i128" => run_ty::<i128, F>(c),
        "isize" => run_ty::<isize, F>(c),
        _ => json!({"res":{"k":"noty"}}),
    }
}

/// the four types used with most catalogue formats
pub fn run_core<const F: u128>(c: &Value) -> Value {
    match c["ty"].as_str().unwrap_or("") {
        "f32" => run_ty::<f32, F>(c),
        "f64" => run_ty::<f64, F>(c),
        "u64" => run_ty::<u64, F>(c),
        "i32" => run_ty::<i32, F>(c),
        _ => json!({"res":{"k":"noty"}}),
    }
}

/// floats only
pub fn run_float<const F: u128>(c: &Value) -> Value {
    match c["ty"].as_str().unwrap_or("") {
        "f32" => run_ty::<f32, F>(c),
        "f64" => run_ty::<f64, F>(c),
        _ => json!({"res":{"k":"noty"}}),
    }
}

pub fn fmt_info<const F: u128>() -> Value {
    let f = lexical_core::format::NumberFormat::<F> {};
    let err = format!("{:?}", lexical_core::format::format_error::<F>());
    json!({
        "valid": lexical_core::format::format_is_valid::<F>(),
        "error": err,
        "get": builder_getters(&NumberFormatBuilder::rebuild(F)),
        "radix": f.radix(), "exponent_base": f.exponent_base(), "exponent_radix": f.exponent_radix(),
    })
}

// ---------------------------------------------------------------------------------------------
// run-time builder episodes (C18)

fn ou8(v: &Value) -> Option<NonZeroU8> {
    v.as_u64().and_then(|x| NonZeroU8::new(x as u8))
}

fn builder_getters(b: &NumberFormatBuilder) -> Value {
    let o = |x: Option<NonZeroU8>| x.map(|v| v.get()).unwrap_or(0);
    json!({
        "digit_separator": o(b.get_digit_separator()),
        "mantissa_radix": b.get_mantissa_radix(),
        "exponent_base": o(b.get_exponent_base()),
        "exponent_radix": o(b.get_exponent_radix()),
        "base_prefix": o(b.get_base_prefix()),
        "base_suffix": o(b.get_base_suffix()),
        "required_integer_digits": b.get_required_integer_digits(),
        "required_fraction_digits": b.get_required_fraction_digits(),
        "required_exponent_digits": b.get_required_exponent_digits(),
        "required_mantissa_digits": b.get_required_mantissa_digits(),
        "no_positive_mantissa_sign": b.get_no_positive_mantissa_sign(),
        "required_mantissa_sign": b.get_required_mantissa_sign(),
        "no_exponent_notation": b.get_no_exponent_notation(),
        "no_positive_exponent_sign": b.get_no_positive_exponent_sign(),
        "required_exponent_sign": b.get_required_exponent_sign(),
        "no_exponent_without_fraction": b.get_no_exponent_without_fraction(),
        "no_special": b.get_no_special(),
        "case_sensitive_special": b.get_case_sensitive_special(),
        "no_integer_leading_zeros": b.get_no_integer_leading_zeros(),
        "no_float_leading_zeros": b.get_no_float_leading_zeros(),
        "required_exponent_notation": b.get_required_exponent_notation(),
        "case_sensitive_exponent": b.get_case_sensitive_exponent(),
        "case_sensitive_base_prefix": b.get_case_sensitive_base_prefix(),
        "case_sensitive_base_suffix": b.get_case_sensitive_base_suffix(),
        "integer_internal_digit_separator": b.get_integer_internal_digit_separator(),
        "fraction_internal_digit_separator": b.get_fraction_internal_digit_separator(),
        "exponent_internal_digit_separator": b.get_exponent_internal_digit_separator(),
        "integer_leading_digit_separator": b.get_integer_leading_digit_separator(),
        "fraction_leading_digit_separator": b.get_fraction_leading_digit_separator(),
        "exponent_leading_digit_separator": b.get_exponent_leading_digit_separator(),
        "integer_trailing_digit_separator": b.get_integer_trailing_digit_separator(),
        "fraction_trailing_digit_separator": b.get_fraction_trailing_digit_separator(),
        "exponent_trailing_digit_separator": b.get_exponent_trailing_digit_separator(),
        "integer_consecutive_digit_separator": b.get_integer_consecutive_digit_separator(),
        "fraction_consecutive_digit_separator": b.get_fraction_consecutive_digit_separator(),
        "exponent_consecutive_digit_separator": b.get_exponent_consecutive_digit_separator(),
        "special_digit_separator": b.get_special_digit_separator(),
    })
}

fn apply_setter(b: NumberFormatBuilder, name: &str, a: &Value) -> Option<NumberFormatBuilder> {
    let f = a.as_bool().unwrap_or_else(|| a.as_u64().unwrap_or(0) != 0);
    let n = a.as_u64().unwrap_or(0) as u8;
    let _ = (f, n);
    Some(match name {
        "new" => NumberFormatBuilder::new(),
        "decimal" => NumberFormatBuilder::rebuild(NumberFormatBuilder::decimal()),
        #[cfg(feature = "pow2")]
        "binary" => NumberFormatBuilder::rebuild(NumberFormatBuilder::binary()),
        #[cfg(feature = "pow2")]
        "octal" => NumberFormatBuilder::rebuild(NumberFormatBuilder::octal()),
        #[cfg(feature = "pow2")]
        "hexadecimal" => NumberFormatBuilder::rebuild(NumberFormatBuilder::hexadecimal()),
        #[cfg(feature = "pow2")]
        "from_radix" => NumberFormatBuilder::rebuild(NumberFormatBuilder::from_radix(n)),
        #[cfg(feature = "pow2")]
        "radix" => b.radix(n),
        #[cfg(feature = "pow2")]
        "mantissa_radix" => b.mantissa_radix(n),
        #[cfg(feature = "pow2")]
        "exponent_base" => b.exponent_base(ou8(a)),
        #[cfg(feature = "pow2")]
        "exponent_radix" => b.exponent_radix(ou8(a)),
        #[cfg(feature = "format")]
        "digit_separator" => b.digit_separator(ou8(a)),
        #[cfg(all(feature = "pow2", feature = "format"))]
        "base_prefix" => b.base_prefix(ou8(a)),
        #[cfg(all(feature = "pow2", feature = "format"))]
        "base_suffix" => b.base_suffix(ou8(a)),
        #[cfg(all(feature = "pow2", feature = "format"))]
        "case_sensitive_base_prefix" => b.case_sensitive_base_prefix(f),
        #[cfg(all(feature = "pow2", feature = "format"))]
        "case_sensitive_base_suffix" => b.case_sensitive_base_suffix(f),
        #[cfg(feature = "format")]
        "required_integer_digits" => b.required_integer_digits(f),
        #[cfg(feature = "format")]
        "required_fraction_digits" => b.required_fraction_digits(f),
        #[cfg(feature = "format")]
        "required_exponent_digits" => b.required_exponent_digits(f),
        #[cfg(feature = "format")]
        "required_mantissa_digits" => b.required_mantissa_digits(f),
        #[cfg(feature = "format")]
        "required_digits" => b.required_digits(f),
        #[cfg(feature = "format")]
        "no_positive_mantissa_sign" => b.no_positive_mantissa_sign(f),
        #[cfg(feature = "format")]
        "required_mantissa_sign" => b.required_mantissa_sign(f),
        #[cfg(feature = "format")]
        "no_exponent_notation" => b.no_exponent_notation(f),
        #[cfg(feature = "format")]
        "no_positive_exponent_sign" => b.no_positive_exponent_sign(f),
        #[cfg(feature = "format")]
        "required_exponent_sign" => b.required_exponent_sign(f),
        #[cfg(feature = "format")]
        "no_exponent_without_fraction" => b.no_exponent_without_fraction(f),
        #[cfg(feature = "format")]
        "no_special" => b.no_special(f),
        #[cfg(feature = "format")]
        "case_sensitive_special" => b.case_sensitive_special(f),
        #[cfg(feature = "format")]
        "no_integer_leading_zeros" => b.no_integer_leading_zeros(f),
        #[cfg(feature = "format")]
        "no_float_leading_zeros" => b.no_float_leading_zeros(f),
        #[cfg(feature = "format")]
        "required_exponent_notation" => b.required_exponent_notation(f),
        #[cfg(feature = "format")]
        "case_sensitive_exponent" => b.case_sensitive_exponent(f),
        #[cfg(feature = "format")]
        "integer_internal_digit_separator" => b.integer_internal_digit_separator(f),
        #[cfg(feature = "format")]
        "fraction_internal_digit_separator" => b.fraction_internal_digit_separator(f),
        #[cfg(feature = "format")]
        "exponent_internal_digit_separator" => b.exponent_internal_digit_separator(f),
        #[cfg(feature = "format")]
        "internal_digit_separator" => b.internal_digit_separator(f),
        #[cfg(feature = "format")]
        "integer_leading_digit_separator" => b.integer_leading_digit_separator(f),
        #[cfg(feature = "format")]
        "fraction_leading_digit_separator" => b.fraction_leading_digit_separator(f),
        #[cfg(feature = "format")]
        "exponent_leading_digit_separator" => b.exponent_leading_digit_separator(f),
        #[cfg(feature = "format")]
        "leading_digit_separator" => b.leading_digit_separator(f),
        #[cfg(feature = "format")]
        "integer_trailing_digit_separator" => b.integer_trailing_digit_separator(f),
        #[cfg(feature = "format")]
        "fraction_trailing_digit_separator" => b.fraction_trailing_digit_separator(f),
        #[cfg(feature = "format")]
        "exponent_trailing_digit_separator" => b.exponent_trailing_digit_separator(f),
        #[cfg(feature = "format")]
        "trailing_digit_separator" => b.trailing_digit_separator(f),
        #[cfg(feature = "format")]
        "integer_consecutive_digit_separator" => b.integer_consecutive_digit_separator(f),
        #[cfg(feature = "format")]
        "fraction_consecutive_digit_separator" => b.fraction_consecutive_digit_separator(f),
        #[cfg(feature = "format")]
        "exponent_consecutive_digit_separator" => b.exponent_consecutive_digit_separator(f),
        #[cfg(feature = "format")]
        "consecutive_digit_separator" => b.consecutive_digit_separator(f),
        #[cfg(feature = "format")]
        "special_digit_separator" => b.special_digit_separator(f),
        #[cfg(feature = "format")]
        "digit_separator_flags" => b.digit_separator_flags(f),
        #[cfg(feature = "format")]
        "integer_digit_separator_flags" => b.integer_digit_separator_flags(f),
        #[cfg(feature = "format")]
        "fraction_digit_separator_flags" => b.fraction_digit_separator_flags(f),
        #[cfg(feature = "format")]
        "exponent_digit_separator_flags" => b.exponent_digit_separator_flags(f),
        _ => return None,
    })
}

pub fn do_builder(c: &Value) -> Value {
    let mut b = NumberFormatBuilder::new();
    let mut after = Vec::new();
    if let Some(calls) = c["calls"].as_array() {
        for call in calls {
            let name = call[0].as_str().unwrap_or("");
            match apply_setter(b, name, &call[1]) {
                Some(nb) => b = nb,
                None => return json!({"res":{"k":"nosetter","name":name}}),
            }
            if c.get("each").and_then(|x| x.as_bool()).unwrap_or(false) {
                after.push(builder_getters(&b));
            }
        }
    }
    let get = builder_getters(&b);
    let packed = b.build_unchecked();
    let strict = match catch_unwind(AssertUnwindSafe(|| b.build_strict())) {
        Ok(p) => json!({"k":"ok","same":p == packed}),
        Err(p) => json!({"k":"panic","msg":panic_msg(p)}),
    };
    let rb = NumberFormatBuilder::rebuild(packed);
    let rget = builder_getters(&rb);
    let repacked = rb.build_unchecked();
    json!({"res":{"k":"ok","get":get,"each":after,"strict":strict,"rebuild_get":rget,
                  "repack_same": repacked == packed,
                  "packed_hi": format!("{:x}", (packed >> 64) as u64),
                  "packed_lo": format!("{:x}", packed as u64)}})
}

// options builders (C18): validity as the code reports it
pub fn do_options(c: &Value) -> Value {
    EMPTY_IS_SOME.store(true, std::sync::atomic::Ordering::Relaxed);
    let r = do_options_inner(c);
    EMPTY_IS_SOME.store(false, std::sync::atomic::Ordering::Relaxed);
    r
}

fn ostr(x: Option<&[u8]>) -> Value {
    match x {
        Some(b) => json!({"some":true,"s":arr(b)}),
        None => json!({"some":false,"s":[]}),
    }
}

fn do_options_inner(c: &Value) -> Value {
    let kind = c["kind"].as_str().unwrap_or("");
    let o = &c["opts"];
    match kind {
        "parse_float" => {
            let mut b = ParseFloatOptions::builder();
            if let Some(x) = o.get("lossy").and_then(|x| x.as_bool()) { b = b.lossy(x); }
            if let Some(x) = o.get("exp").and_then(|x| x.as_u64()) { b = b.exponent(x as u8); }
            if let Some(x) = o.get("point").and_then(|x| x.as_u64()) { b = b.decimal_point(x as u8); }
            if let Some(x) = opt_str(o.get("nan")) { b = b.nan_string(x); }
            if let Some(x) = opt_str(o.get("inf")) { b = b.inf_string(x); }
            if let Some(x) = opt_str(o.get("infinity")) { b = b.infinity_string(x); }
            let valid = b.is_valid();
            let build = match b.build() { Ok(_) => json!("ok"), Err(e) => json!(format!("{:?}", e)) };
            let strict = catch_unwind(AssertUnwindSafe(|| b.build_strict())).is_ok();
            let u = b.build_unchecked();
            let rb = u.rebuild();
            let same = rb.build_unchecked() == u;
            json!({"res":{"k":"ok","valid":valid,"build":build,"strict":strict,"rebuild_same":same,
                "get":{"lossy":u.lossy(),"exp":u.exponent(),"point":u.decimal_point(),
                       "nan":ostr(u.nan_string()),"inf":ostr(u.inf_string()),
                       "infinity":ostr(u.infinity_string())}}})
        }
        "write_float" => {
            let (u, valid) = write_float_opts(o);
            let b = u.rebuild();
            let build = match b.build() { Ok(_) => json!("ok"), Err(e) => json!(format!("{:?}", e)) };
            let strict = catch_unwind(AssertUnwindSafe(|| b.build_strict())).is_ok();
            let same = b.build_unchecked() == u;
            json!({"res":{"k":"ok","valid":valid,"build":build,"strict":strict,"rebuild_same":same,
                "get":{"max":u.max_significant_digits().map(|x| x.get() as u64).unwrap_or(0),
                       "min":u.min_significant_digits().map(|x| x.get() as u64).unwrap_or(0),
                       "pos":u.positive_exponent_break().map(|x| x.get()).unwrap_or(0),
                       "neg":u.negative_exponent_break().map(|x| x.get()).unwrap_or(0),
                       "round": format!("{:?}", u.round_mode()).to_lowercase(),
                       "trim":u.trim_floats(),"exp":u.exponent(),"point":u.decimal_point(),
                       "nan":ostr(u.nan_string()),"inf":ostr(u.inf_string())}}})
        }
        _ => json!({"res":{"k":"badkind"}}),
    }
}


pub use serde_json;
pub use lexical_core;
