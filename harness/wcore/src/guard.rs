//! Guard-paged buffers: a mapping whose first and last pages are PROT_NONE.  A slice can be
//! placed so that its end abuts the trailing guard page ("end") or its start abuts the leading
//! guard page ("start").  The in-mapping bytes on the other side are filled with a canary
//! pattern that is checked after the call.

use std::ptr;

pub const CANARY: u8 = 0xA5;

pub struct Guarded {
    base: *mut u8,
    total: usize,
    page: usize,
    data_off: usize,
    len: usize,
}

impl Guarded {
    pub fn new(len: usize, at_end: bool) -> Guarded {
        unsafe {
            let page = libc::sysconf(libc::_SC_PAGESIZE) as usize;
            let inner = ((len + page - 1) / page).max(1) * page;
            let total = inner + 2 * page;
            let base = libc::mmap(
                ptr::null_mut(),
                total,
                libc::PROT_READ | libc::PROT_WRITE,
                libc::MAP_PRIVATE | libc::MAP_ANONYMOUS,
                -1,
                0,
            );
            if base == libc::MAP_FAILED {
                panic!("mmap failed");
            }
            let base = base as *mut u8;
            ptr::write_bytes(base.add(page), CANARY, inner);
            libc::mprotect(base as *mut _, page, libc::PROT_NONE);
            libc::mprotect(base.add(page + inner) as *mut _, page, libc::PROT_NONE);
            let data_off = if at_end { page + inner - len } else { page };
            Guarded { base, total, page, data_off, len }
        }
    }

    pub fn slice_mut(&mut self) -> &mut [u8] {
        unsafe { std::slice::from_raw_parts_mut(self.base.add(self.data_off), self.len) }
    }

    pub fn slice(&self) -> &[u8] {
        unsafe { std::slice::from_raw_parts(self.base.add(self.data_off), self.len) }
    }

    pub fn start_ptr(&self) -> *const u8 {
        unsafe { self.base.add(self.data_off) }
    }

    /// true when every in-mapping byte outside the slice still holds the canary
    pub fn canary_ok(&self) -> bool {
        unsafe {
            let lo = self.base.add(self.page);
            let inner = self.total - 2 * self.page;
            let before = self.data_off - self.page;
            for i in 0..before {
                if *lo.add(i) != CANARY {
                    return false;
                }
            }
            for i in (before + self.len)..inner {
                if *lo.add(i) != CANARY {
                    return false;
                }
            }
            true
        }
    }
}

impl Drop for Guarded {
    fn drop(&mut self) {
        unsafe {
            libc::munmap(self.base as *mut _, self.total);
        }
    }
}
