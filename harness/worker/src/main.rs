//! Conformance worker binary: stdin cases -> stdout events.  See wcore for the call machinery
//! and slices/ for the generated format catalogue (split over crates so cargo builds it in parallel).
use serde_json::{json, Value};
use std::io::{BufRead, Write};
use wcore::*;

include!("gen/dispatch.rs");

// ---------------------------------------------------------------------------------------------

fn handle(c: &Value) -> Value {
    let mut ev = match c["op"].as_str().unwrap_or("") {
        "builder" => do_builder(c),
        "options" => do_options(c),
        "fmtinfo" => {
            let id = c["fmt"].as_u64().unwrap_or(0) as u32;
            json!({"res": fmt_info_dispatch(id)})
        }
        "consts" => json!({"res":{"k":"ok","BUFFER_SIZE":wcore::lexical_core::BUFFER_SIZE as u64,"cfg":cfg_name()}}),
        _ => {
            let id = c["fmt"].as_u64().unwrap_or(0) as u32;
            dispatch(id, c)
        }
    };
    // echo the case so that an event is self-contained
    if let (Some(e), Some(co)) = (ev.as_object_mut(), c.as_object()) {
        for (k, v) in co {
            if !e.contains_key(k) {
                e.insert(k.clone(), v.clone());
            }
        }
        e.insert("cfg".into(), Value::from(std::env::var("WORKER_CFG").unwrap_or_else(|_| cfg_name())));
        e.insert("feat".into(), wcore::feat_json());
    }
    ev
}

fn main() {
    std::panic::set_hook(Box::new(|_| {}));
    let timeout: u32 =
        std::env::var("WORKER_CASE_TIMEOUT").ok().and_then(|x| x.parse().ok()).unwrap_or(20);
    let stdin = std::io::stdin();
    let stdout = std::io::stdout();
    let mut out = std::io::BufWriter::new(stdout.lock());
    for line in stdin.lock().lines() {
        let line = match line {
            Ok(l) => l,
            Err(_) => break,
        };
        if line.trim().is_empty() {
            continue;
        }
        let c: Value = match serde_json::from_str(&line) {
            Ok(v) => v,
            Err(_) => {
                let _ = writeln!(out, "{}", json!({"res":{"k":"badjson"}}));
                continue;
            }
        };
        // flush before the call: if the call kills the process (guard page, alarm), every earlier
        // event is already on disk and the driver knows exactly which case was in flight
        let _ = out.flush();
        unsafe {
            libc::alarm(timeout);
        }
        let ev = handle(&c);
        unsafe {
            libc::alarm(0);
        }
        let _ = writeln!(out, "{}", ev);
    }
    let _ = out.flush();
}
